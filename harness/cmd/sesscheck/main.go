// sesscheck binds spec/Sessions.tla to the real session manager of a shard leader.
//
//	sesscheck replay -in behaviours.ndjson -out result.json
//	    every input line is a JSON behaviour exported by TLC (SessionsMC): calls Create / KeepAlive / Tick /
//	    CloseBegin / Cleanup / Write / LeaderChange(lag) / Fill(m) with the outcome and the observable state the
//	    specification demands.  Each is executed on a fresh real RF=1 leader controller whose session
//	    timers run on the harness's tick clock and whose cleanups park between listing and delete write
//	    (hooks under the build tag verif); every step is compared.
//	sesscheck drive -seed S -n N -ops K -out trace.ndjson
//	    random interleavings over a bigger key space (keys that need escaping, three sessions, several
//	    timeouts, elections of a node whose DB lags its log, shards populated around the range-delete
//	    threshold) on the real code, recorded for validation by SessTrace.tla.
//	sesscheck rerun -in scenario.json -out trace.ndjson
//	    executes the calls (arguments only) of a saved scenario and records what the real code does.
package main

import (
	"bufio"
	"encoding/json"
	"flag"
	"fmt"
	"math/rand"
	"os"
	"strings"
	"sync"
	"time"

	m "verif/harness/dbmodel"
)

type mismatch struct {
	Behaviour []m.SStep `json:"behaviour"`
	Step      int       `json:"step"`
	What      string    `json:"what"`
	Got       *m.SStep  `json:"got"`
	Cfg       string    `json:"cfg"`
}

type outcome struct {
	mm      *mismatch
	steps   int
	kfHits  int
	harness error
}

func argsOf(w *m.SStep) m.SStep {
	g := m.SStep{S: w.S, To: w.To, Lag: w.Lag, Fill: w.Fill}
	g.A, g.Req = w.A, w.Req
	return g
}

func keysOf(beh []m.SStep) []string {
	steps := make([]m.Step, len(beh))
	for i := range beh {
		steps[i] = beh[i].Step
	}
	return m.KeysOf(steps)
}

func replayOne(beh []m.SStep, scope map[string]bool) (o outcome) {
	e, err := m.NewSessionEngine()
	if err != nil {
		o.harness = err
		return o
	}
	defer e.Close()
	probe := keysOf(beh)
	for i := range beh {
		want := &beh[i]
		if want.Kf {
			// the step completes a known-finding pattern (design/C14.md): from here on the behaviour is
			// attributed to the finding, not judged
			o.kfHits++
			return o
		}
		got := argsOf(want)
		problems := m.ExecSess(e, &got, probe)
		got.Normalize()
		o.steps++
		for _, p := range problems {
			if strings.HasPrefix(p, "harness:") {
				o.harness = fmt.Errorf("%s", p)
				return o
			}
		}
		if len(problems) > 0 {
			o.mm = &mismatch{Behaviour: beh[:i+1], Step: i, What: "read paths disagree: " + strings.Join(problems, "; "), Got: &got}
			return o
		}
		if d := m.DiffSess(want, &got, scope); d != "" {
			o.mm = &mismatch{Behaviour: beh[:i+1], Step: i, What: d, Got: &got}
			return o
		}
		if strings.HasPrefix(got.Err, "ERROR") {
			return o
		}
	}
	return o
}

func classOf(mm *mismatch) string {
	w := mm.What
	if i := strings.Index(w, ";"); i > 0 {
		w = w[:i]
	}
	for _, c := range "0123456789" {
		w = strings.ReplaceAll(w, string(c), "#")
	}
	return w
}

func cmdReplay(args []string) int {
	fs := flag.NewFlagSet("replay", flag.ExitOnError)
	in := fs.String("in", "", "ndjson of behaviours")
	out := fs.String("out", "", "result json")
	workers := fs.Int("workers", 12, "")
	maxBad := fs.Int("maxbad", 25, "stop after this many mismatching behaviours")
	cmp := fs.String("cmp", "res,recs,lv,shadow,nf", "aspects of the DB to compare")
	_ = fs.Parse(args)
	scope := map[string]bool{}
	for _, c := range strings.Split(*cmp, ",") {
		scope[strings.TrimSpace(c)] = true
	}
	m.Quiet()
	f, err := os.Open(*in)
	if err != nil {
		fmt.Fprintln(os.Stderr, err)
		return 2
	}
	defer f.Close()
	sc := bufio.NewScanner(f)
	sc.Buffer(make([]byte, 1<<20), 1<<28)
	type result struct {
		Behaviours int        `json:"behaviours"`
		Steps      int        `json:"steps"`
		KfHits     int        `json:"kf_hits"`
		Mismatches []mismatch `json:"mismatches"`
		Truncated  bool       `json:"truncated"`
	}
	var res result
	var mu sync.Mutex
	bad := 0
	seen := map[string]bool{}
	var harnessErr error
	lines := make(chan []byte, 64)
	var wg sync.WaitGroup
	for w := 0; w < *workers; w++ {
		wg.Add(1)
		go func() {
			defer wg.Done()
			for line := range lines {
				mu.Lock()
				stop := bad >= *maxBad || harnessErr != nil
				mu.Unlock()
				if stop {
					continue
				}
				var beh []m.SStep
				if err := json.Unmarshal(line, &beh); err != nil {
					mu.Lock()
					harnessErr = fmt.Errorf("bad behaviour line: %v", err)
					mu.Unlock()
					continue
				}
				o := replayOne(beh, scope)
				if o.mm != nil {
					// only a mismatch that reproduces is reported
					o2 := replayOne(beh, scope)
					if o2.mm == nil || o2.mm.Step != o.mm.Step {
						o.harness = fmt.Errorf("a mismatch at step %d (%s) did not reproduce on re-execution: %s", o.mm.Step, o.mm.Behaviour[len(o.mm.Behaviour)-1].A, o.mm.What)
					}
				}
				mu.Lock()
				res.Behaviours++
				res.Steps += o.steps
				res.KfHits += o.kfHits
				if o.harness != nil && harnessErr == nil {
					harnessErr = o.harness
				}
				if o.mm != nil && o.harness == nil {
					bad++
					if c := classOf(o.mm); !seen[c] {
						seen[c] = true
						res.Mismatches = append(res.Mismatches, *o.mm)
					}
				}
				mu.Unlock()
			}
		}()
	}
	for sc.Scan() {
		b := sc.Bytes()
		if len(b) == 0 {
			continue
		}
		lines <- append([]byte(nil), b...)
	}
	close(lines)
	wg.Wait()
	if harnessErr != nil {
		fmt.Fprintln(os.Stderr, "harness failure:", harnessErr)
		return 2
	}
	res.Truncated = bad >= *maxBad
	b, _ := json.Marshal(res)
	if err := os.WriteFile(*out, b, 0o644); err != nil {
		fmt.Fprintln(os.Stderr, err)
		return 2
	}
	return 0
}

// ---------------------------------------------------------------- random driver

var keyPool = []string{"a", "b", "a/b", "c d", "x%y", "a/b/c", "~", "é"}

type drv struct {
	rng   *rand.Rand
	keys  []string
	ids   []int        // every session ever created
	pend  map[int]bool // cleanups parked in the gate
	exp   map[int]bool // ... of which by expiry
	armed map[int]bool
	racy  bool // this trace may write into the window of a pending cleanup in the known-finding pattern
	big   bool // the shard is populated first (fill records): range deletes around the code's threshold
	fill  int
	feat  bool     // puts combine ownership with sequence keys / version conditions
	base  []string // the keys the trace started with (prefixes of sequence puts); keys grows by the generated keys
}

func plainReq() m.Req { return m.Req{Puts: []m.Put{}, Dels: []m.Del{}, Rngs: []m.Rng{}} }

func (d *drv) write(last *m.SStep) m.Req {
	r := plainReq()
	n := 1 + d.rng.Intn(2)
	for i := 0; i < n; i++ {
		switch x := d.rng.Intn(10); {
		case x < 6:
			p := m.Put{Key: m.K(d.keys[d.rng.Intn(len(d.keys))]), Val: 1 + d.rng.Intn(900), Exp: m.NoExp, Sess: m.NoSess, Deltas: []int{}, Idx: []m.IdxE{}}
			if len(d.ids) > 0 && d.rng.Intn(3) > 0 {
				p.Sess = d.ids[d.rng.Intn(len(d.ids))]
			} else if d.rng.Intn(6) == 0 {
				p.Sess = 900 + d.rng.Intn(2) // never created
			}
			if d.rng.Intn(6) == 0 {
				p.Idx = append(p.Idx, m.IdxE{N: m.K("i"), K: m.K([]string{"u", "v"}[d.rng.Intn(2)])})
			}
			if d.feat {
				d.features(last, &p)
			}
			if !d.racy && d.races(last, &p) {
				// outside racy traces, stay out of the known-finding pattern: write the key as the session
				// under cleanup would (listed key, same session) or leave the session alone
				continue
			}
			r.Puts = append(r.Puts, p)
		case x < 8:
			r.Dels = append(r.Dels, m.Del{Key: m.K(d.keys[d.rng.Intn(len(d.keys))]), Exp: m.NoExp})
		default:
			b := []string{"", "a", "a/", "b", "c", "z", "~~"}
			if d.big {
				// bounds inside and around the block of filler records "a-NNN"
				b = append(b, "a-", "a.", fmt.Sprintf("a-%03d", 1+d.rng.Intn(8)), fmt.Sprintf("a-%03d", d.fill-d.rng.Intn(3)))
			}
			s, e := b[d.rng.Intn(len(b))], b[d.rng.Intn(len(b))]
			if d.big && d.rng.Intn(2) == 0 {
				// a range that holds the whole block and what follows it
				s, e = []string{"", "a", "a-"}[d.rng.Intn(3)], []string{"c", "z", "~~"}[d.rng.Intn(3)]
			}
			if m.SlashCmp(s, e) > 0 {
				s, e = e, s
			}
			r.Rngs = append(r.Rngs, m.Rng{S: m.K(s), E: m.K(e)})
		}
	}
	if len(r.Puts)+len(r.Dels)+len(r.Rngs) == 0 {
		r.Dels = append(r.Dels, m.Del{Key: m.K(d.keys[0]), Exp: m.NoExp})
	}
	return r
}

// features combines the ownership of a put with the other things a put can ask for: a generated sequence
// key (the request key is only the prefix; one delta per prefix, so that the generator never meets a key
// with more parts than deltas - OxiaDb.tla!SeqStateError, C13's subject), a version condition (must not
// exist / the current version / some other version).  Index entries are added by the caller.
func (d *drv) features(last *m.SStep, p *m.Put) {
	switch x := d.rng.Intn(10); {
	case x < 3:
		k := d.base[d.rng.Intn(len(d.base))]
		if d.big && k == "a" {
			return // the filler records "a-NNN" are in the sequence of the prefix "a"
		}
		p.Key, p.Pkey, p.Deltas = m.K(k), true, []int{1 + d.rng.Intn(3)}
	case x < 5:
		p.Exp = -1
		if last != nil && d.rng.Intn(3) > 0 {
			for _, r := range last.Recs {
				if r.Key.S() == p.Key.S() {
					p.Exp = r.Ver
				}
			}
		}
		if d.rng.Intn(6) == 0 {
			p.Exp = d.rng.Intn(8)
		}
	}
}

// races mirrors Sessions.tla!Race for one put against the cleanups pending after the last step.
func (d *drv) races(last *m.SStep, p *m.Put) bool {
	if last == nil {
		return false
	}
	for _, pd := range last.Pend {
		listed := false
		for _, k := range pd.Keys {
			if k.S() == p.Key.S() {
				listed = true
			}
			if len(p.Deltas) > 0 && strings.HasPrefix(k.S(), p.Key.S()+"-") {
				return true
			}
		}
		if len(p.Deltas) > 0 {
			if p.Sess == pd.S {
				return true
			}
			continue
		}
		if (listed && p.Sess != pd.S) || (!listed && p.Sess == pd.S) {
			return true
		}
	}
	return false
}

func cmdDrive(args []string) int {
	fs := flag.NewFlagSet("drive", flag.ExitOnError)
	seed := fs.Int64("seed", 1, "")
	n := fs.Int("n", 20, "traces")
	ops := fs.Int("ops", 30, "calls per trace")
	out := fs.String("out", "trace.ndjson", "")
	racy := fs.Int("racy", 10, "one trace in this many may write into a cleanup window in the known-finding pattern (0: none)")
	big := fs.Int("big", 6, "one trace in this many starts by populating the shard with 96..104 records (0: none)")
	feat := fs.Int("feat", 0, "one trace in this many combines ephemeral puts with sequence keys and version conditions (0: none)")
	maxLag := fs.Int("maxlag", 3, "a leader change elects a node whose DB lags its log by 0..maxlag entries")
	_ = fs.Parse(args)
	m.Quiet()
	f, err := os.Create(*out)
	if err != nil {
		fmt.Fprintln(os.Stderr, err)
		return 2
	}
	defer f.Close()
	w := bufio.NewWriterSize(f, 1<<20)
	defer w.Flush()
	enc := json.NewEncoder(w)
	rng := rand.New(rand.NewSource(*seed))
	emit := func(st *m.SStep) {
		st.Normalize()
		_ = enc.Encode(st)
	}
	for t := 0; t < *n; t++ {
		e, err := m.NewSessionEngine()
		if err != nil {
			fmt.Fprintln(os.Stderr, err)
			return 2
		}
		d := &drv{rng: rng, racy: *racy > 0 && rng.Intn(*racy) == 0}
		for _, k := range keyPool {
			if rng.Intn(2) == 0 {
				d.keys = append(d.keys, k)
			}
		}
		if len(d.keys) == 0 {
			d.keys = []string{"a"}
		}
		d.base = append([]string(nil), d.keys...)
		d.feat = *feat > 0 && rng.Intn(*feat) == 0
		reset := m.SStep{S: -1}
		reset.A, reset.Off, reset.Lv = "Reset", -1, -1
		emit(&reset)
		var last *m.SStep
		if *big > 0 && rng.Intn(*big) == 0 {
			d.big, d.fill = true, 96+rng.Intn(9)
		}
		for k := 0; k < *ops; k++ {
			st := m.SStep{S: -1}
			var pend, armed []int
			expiring := map[int]bool{}
			if last != nil {
				for _, p := range last.Pend {
					pend = append(pend, p.S)
					expiring[p.S] = p.Kind == "expire"
				}
				for _, a := range last.Armed {
					armed = append(armed, a.S)
				}
			}
			anyID := func() int {
				if len(d.ids) == 0 || rng.Intn(8) == 0 {
					return 700 + rng.Intn(2)
				}
				return d.ids[rng.Intn(len(d.ids))]
			}
			switch x := rng.Intn(20); {
			case d.big && k == 0:
				st.A, st.Fill = "Fill", d.fill
			case x < 3 && len(d.ids) < 4:
				st.A, st.To = "Create", 1+rng.Intn(3)
			case x < 5:
				st.A, st.S = "KeepAlive", anyID()
			case x < 8:
				st.A = "Tick"
			case x < 10:
				st.A, st.S = "CloseBegin", anyID()
				if expiring[st.S] {
					st.A, st.S = "Tick", -1 // CloseSession of an expiring session waits for the expiry
				}
			case x < 13 && len(pend) > 0:
				st.A, st.S = "Cleanup", pend[rng.Intn(len(pend))]
			case (x == 13 || x == 14) && len(pend) == 0 && k > 0:
				st.A, st.Lag = "LeaderChange", rng.Intn(*maxLag+1)
				if st.Lag > e.NextOffset() {
					st.Lag = e.NextOffset()
				}
			default:
				st.A, st.Req = "Write", d.write(last)
			}
			problems := m.ExecSess(e, &st, d.keys)
			for _, p := range problems {
				if strings.HasPrefix(p, "harness:") {
					fmt.Fprintln(os.Stderr, p)
					return 2
				}
			}
			if len(problems) > 0 {
				st.Err = "INCONSISTENT: " + strings.Join(problems, "; ")
			}
			emit(&st)
			if st.Err != "" {
				break
			}
			if st.A == "Create" {
				d.ids = append(d.ids, st.S)
			}
			if st.A == "Write" {
				// the generated keys become keys of the trace: later puts, deletes and point reads name them
				for i, r := range st.Res.Puts {
					if r.St == "OK" && len(st.Req.Puts[i].Deltas) > 0 && len(d.keys) < 16 {
						known := false
						for _, k := range d.keys {
							known = known || k == r.Key.S()
						}
						if !known {
							d.keys = append(d.keys, r.Key.S())
						}
					}
				}
			}
			cp := st
			last = &cp
		}
		e.Close()
	}
	return 0
}

// rerun executes the calls (arguments only) of a saved scenario and records what the real code does.
func cmdRerun(args []string) int {
	fs := flag.NewFlagSet("rerun", flag.ExitOnError)
	in := fs.String("in", "", "scenario / replay json")
	out := fs.String("out", "trace.ndjson", "")
	_ = fs.Parse(args)
	m.Quiet()
	b, err := os.ReadFile(*in)
	if err != nil {
		fmt.Fprintln(os.Stderr, err)
		return 2
	}
	var mm mismatch
	if err := json.Unmarshal(b, &mm); err != nil {
		fmt.Fprintln(os.Stderr, err)
		return 2
	}
	e, err := m.NewSessionEngine()
	if err != nil {
		fmt.Fprintln(os.Stderr, err)
		return 2
	}
	defer e.Close()
	f, err := os.Create(*out)
	if err != nil {
		fmt.Fprintln(os.Stderr, err)
		return 2
	}
	defer f.Close()
	enc := json.NewEncoder(f)
	reset := m.SStep{S: -1}
	reset.A, reset.Off, reset.Lv = "Reset", -1, -1
	reset.Normalize()
	_ = enc.Encode(&reset)
	probe := keysOf(mm.Behaviour)
	for i := range mm.Behaviour {
		st := argsOf(&mm.Behaviour[i])
		if problems := m.ExecSess(e, &st, probe); len(problems) > 0 {
			st.Err = "INCONSISTENT: " + strings.Join(problems, "; ")
		}
		st.Normalize()
		_ = enc.Encode(&st)
		if st.Err != "" {
			break
		}
	}
	return 0
}

// deadlock: a session is parked between the two steps of its expiry cleanup; the leader receives NewTerm.
func cmdDeadlock(args []string) int {
	fs := flag.NewFlagSet("deadlock", flag.ExitOnError)
	out := fs.String("out", "", "result json")
	settle := fs.Duration("settle", 3*time.Second, "time given to NewTerm to return before the goroutine stacks are inspected")
	_ = fs.Parse(args)
	m.Quiet()
	e, err := m.NewSessionEngine()
	if err != nil {
		fmt.Fprintln(os.Stderr, err)
		return 2
	}
	defer e.Close()
	steps := []m.SStep{{To: 1}, {}, {}}
	steps[0].A = "Create"
	steps[1].A, steps[1].Req = "Write", m.Req{Puts: []m.Put{{Key: m.K("a"), Val: 1, Exp: m.NoExp, Sess: 0}}}
	steps[2].A = "Tick"
	for i := range steps {
		if problems := m.ExecSess(e, &steps[i], []string{"a"}); len(problems) > 0 || steps[i].Err != "" {
			fmt.Fprintln(os.Stderr, "harness: set-up failed:", problems, steps[i].Err)
			return 2
		}
	}
	if len(steps[2].Pend) != 1 || steps[2].Pend[0].Kind != "expire" {
		fmt.Fprintln(os.Stderr, "harness: the session did not expire into the gate")
		return 2
	}
	res := e.SessExpiryVsNewTerm(0, *settle)
	b, _ := json.Marshal(res)
	if err := os.WriteFile(*out, b, 0o644); err != nil {
		fmt.Fprintln(os.Stderr, err)
		return 2
	}
	return 0
}

func main() {
	if len(os.Args) < 2 {
		fmt.Fprintln(os.Stderr, "usage: sesscheck replay|drive|rerun ...")
		os.Exit(2)
	}
	switch os.Args[1] {
	case "replay":
		os.Exit(cmdReplay(os.Args[2:]))
	case "drive":
		os.Exit(cmdDrive(os.Args[2:]))
	case "rerun":
		os.Exit(cmdRerun(os.Args[2:]))
	case "deadlock":
		os.Exit(cmdDeadlock(os.Args[2:]))
	}
	os.Exit(2)
}
