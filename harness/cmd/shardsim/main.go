// shardsim replays behaviours of spec/OxiaShard.tla (exported by TLC as JSON) on real Oxia storage
// nodes connected by the scheduler-controlled virtual wire of harness/cluster, and compares the
// projected state of the real nodes with what the specification demands after every step.
//
//	shardsim replay -in runs.ndjson -out result.json [-timeout 3s]
package main

import (
	"bufio"
	"encoding/json"
	"flag"
	"fmt"
	"io"
	"log/slog"
	"math/rand"
	"os"
	"os/exec"
	"reflect"
	"runtime"
	"sort"
	"strings"
	"sync"
	"sync/atomic"
	"time"

	"github.com/oxia-db/oxia/proto"

	"verif/harness/cluster"
)

type head struct {
	T int64 `json:"t"`
	O int64 `json:"o"`
}

func (h *head) real() *proto.EntryId {
	if h == nil {
		return &proto.EntryId{Term: -1, Offset: -1}
	}
	return &proto.EntryId{Term: cluster.TermToReal(h.T), Offset: h.O - 1}
}

// TLC prints an empty function as [] and a non-empty one as an object
type headMap map[string]head

func (m *headMap) UnmarshalJSON(b []byte) error {
	if len(b) > 0 && b[0] == '[' {
		*m = headMap{}
		return nil
	}
	x := map[string]head{}
	if err := json.Unmarshal(b, &x); err != nil {
		return err
	}
	*m = x
	return nil
}

type intMap map[string]int64

func (m *intMap) UnmarshalJSON(b []byte) error {
	if len(b) > 0 && b[0] == '[' {
		*m = intMap{}
		return nil
	}
	x := map[string]int64{}
	if err := json.Unmarshal(b, &x); err != nil {
		return err
	}
	*m = x
	return nil
}

type expNode struct {
	Up      bool             `json:"up"`
	Ctrl    string           `json:"ctrl"`
	Status  string           `json:"status"`
	Term    int64            `json:"term"`
	Wal     []cluster.PEntry `json:"wal"`
	First   int64            `json:"first"`
	Synced  int64            `json:"synced"`
	Applied []string         `json:"applied"`
	DbTerm  int64            `json:"dbterm"`
	Head    int64            `json:"head"`
	Commit  int64            `json:"commit"`
	Busy    bool             `json:"busy"`
	LastApp int64            `json:"lastapp"`
	Parked  bool             `json:"parked"`
	Queued  int              `json:"queued"`
	Cursors intMap           `json:"cursors"`
}

type expMsg struct {
	O int64 `json:"o"`
	T int64 `json:"t"`
	C int64 `json:"c"`
}

type expStream struct {
	L   string   `json:"l"`
	F   string   `json:"f"`
	App []expMsg `json:"app"`
	Ack []int64  `json:"ack"`
}

type exp struct {
	Nodes   map[string]*expNode `json:"nodes"`
	Streams []expStream         `json:"streams"`
	Acked   []struct {
		Off int64 `json:"off"`
		T   int64 `json:"t"`
	} `json:"acked"`
	Kf []string `json:"kf"`
}

type step struct {
	A       string   `json:"a"`
	N       string   `json:"n"`
	L       string   `json:"l"`
	F       string   `json:"f"`
	T       int64    `json:"t"`
	Ok      bool     `json:"ok"`
	Head    *head    `json:"head"`
	V       string   `json:"v"`
	Off     int64    `json:"off"`
	Rf      uint32   `json:"rf"`
	Fm      headMap  `json:"fm"`
	Sent    bool     `json:"sent"`
	Deleted []string `json:"deleted"`
	Offs    []int64  `json:"offs"`
	Exp     *exp     `json:"exp"`
}

// VERIF_SLOWSYNC=<duration>: a sync round that is pending when NewTerm arrives stalls this long
var slowSync = func() time.Duration { d, _ := time.ParseDuration(os.Getenv("VERIF_SLOWSYNC")); return d }()

type histEv struct {
	Ev    string `json:"ev"`
	Op    int    `json:"op"`
	W     int    `json:"w"`
	Res   []int  `json:"res"`
	Stale bool   `json:"stale"`
	Node  string `json:"node,omitempty"`
	// linstress only: the invocation line of a read carries a copy of what its response line reports
	Fut    []int `json:"fut,omitempty"`
	HasRet bool  `json:"hasret,omitempty"`
}

// observe records what clients could see now: responses of writes, and one read per serving leader
func (r *runner) observe(names []string) {
	for i, w := range r.sim.Writes() {
		if w.Done && w.Err == "" && !r.wRet[i] {
			r.wRet[i] = true
			r.hist = append(r.hist, histEv{Ev: "retw", Op: i + 1, Res: []int{}})
		}
	}
	type rd struct {
		node string
		term int64
		idx  []int
	}
	var reads []rd
	for _, n := range names {
		if running, _ := r.blRunning(n); running {
			continue // BecomeLeader holds the controller lock until the quorum is there: reads would block
		}
		if idx, term, ok := r.sim.ReadKeys(n); ok {
			reads = append(reads, rd{n, term, idx})
			if term > r.maxLTerm {
				r.maxLTerm = term
			}
		}
	}
	if len(reads) > 0 {
		time.Sleep(300 * time.Microsecond) // the list goroutine closes its iterator after completing the stream
	}
	for _, x := range reads {
		r.nextOp++
		op := 1000 + r.nextOp
		r.hist = append(r.hist, histEv{Ev: "invr", Op: op, Res: []int{}, Node: x.node})
		res := []int{}
		for _, i := range x.idx {
			res = append(res, i+1)
		}
		r.hist = append(r.hist, histEv{Ev: "retr", Op: op, Res: res, Stale: x.term < r.maxLTerm, Node: x.node})
	}
}

type mismatch struct {
	Index     int    `json:"index"` // line of the behaviour in the input file
	Step      int    `json:"step"`
	Action    string `json:"action"`
	Field     string `json:"field"`
	What      string `json:"what"`
	Kf        []string `json:"kf"`
	Behaviour []step `json:"behaviour,omitempty"`
}

type runner struct {
	sim     *cluster.Sim
	timeout time.Duration
	// spec (off, t) of each write in issue order
	wOff []int64
	wT   []int64
	wNode []string
	blStarted map[string]bool
	// client history (C02): invocations and responses in the order the harness saw them
	hist      []histEv
	nextOp    int
	wRet      map[int]bool
	maxLTerm  int64
}

func eqEntries(a, b []cluster.PEntry) bool {
	if len(a) != len(b) {
		return false
	}
	for i := range a {
		if a[i] != b[i] {
			return false
		}
	}
	return true
}

// compare returns "" if the real cluster matches e, else (field, description) of the first difference.
func (r *runner) compare(e *exp) (string, string) {
	names := make([]string, 0, len(e.Nodes))
	for n := range e.Nodes {
		names = append(names, n)
	}
	sort.Strings(names)
	for _, n := range names {
		x := e.Nodes[n]
		p, err := r.sim.Project(n)
		if err != nil {
			return "harness", fmt.Sprintf("projection of %s failed: %v", n, err)
		}
		if p.Up != x.Up {
			return "up", fmt.Sprintf("%s: up spec %v code %v", n, x.Up, p.Up)
		}
		if !x.Up {
			continue
		}
		if p.Ctrl != x.Ctrl {
			return "ctrl", fmt.Sprintf("%s: controller spec %s code %s", n, x.Ctrl, p.Ctrl)
		}
		if x.Ctrl == "none" {
			continue
		}
		if p.Status != x.Status {
			return "status", fmt.Sprintf("%s: status spec %s code %s", n, x.Status, p.Status)
		}
		if p.Term != x.Term {
			return "term", fmt.Sprintf("%s: term spec %d code %d", n, x.Term, p.Term)
		}
		if p.DbTerm != x.DbTerm {
			return "dbterm", fmt.Sprintf("%s: durable term spec %d code %d", n, x.DbTerm, p.DbTerm)
		}
		if !eqEntries(p.Wal, x.Wal) {
			return "wal", fmt.Sprintf("%s: log spec %v code %v", n, x.Wal, p.Wal)
		}
		if p.First != x.First {
			return "wal", fmt.Sprintf("%s: first offset spec %d code %d", n, x.First, p.First)
		}
		if p.Synced != x.Synced {
			return "synced", fmt.Sprintf("%s: synced spec %d code %d", n, x.Synced, p.Synced)
		}
		if !reflect.DeepEqual(append([]string{}, p.Applied...), append([]string{}, x.Applied...)) {
			return "applied", fmt.Sprintf("%s: applied spec %v code %v", n, x.Applied, p.Applied)
		}
		if p.Head != x.Head || p.Commit != x.Commit {
			return "tracker", fmt.Sprintf("%s: head/commit spec %d/%d code %d/%d", n, x.Head, x.Commit, p.Head, p.Commit)
		}
		if x.Ctrl == "follower" && p.LastApp != x.LastApp {
			return "lastapp", fmt.Sprintf("%s: follower last appended spec %d code %d", n, x.LastApp, p.LastApp)
		}
		if x.Head >= 0 {
			if len(p.Cursors) != len(x.Cursors) {
				return "cursors", fmt.Sprintf("%s: cursors spec %v code %v", n, x.Cursors, p.Cursors)
			}
			for f, a := range x.Cursors {
				if p.Cursors[f] != a {
					return "cursors", fmt.Sprintf("%s: cursor of %s ack spec %d code %d", n, f, a, p.Cursors[f])
				}
			}
		}
		if x.Parked && !r.sim.IsParked("sync", n, n) {
			return "parked", fmt.Sprintf("%s: a sync round should be pending", n)
		}
		if x.Parked && p.Queued != x.Queued {
			return "parked", fmt.Sprintf("%s: sync requests queued behind the pending round spec %d code %d", n, x.Queued, p.Queued)
		}
		running, _ := r.blRunning(n)
		if x.Busy != running {
			return "busy", fmt.Sprintf("%s: BecomeLeader in progress spec %v code %v", n, x.Busy, running)
		}
	}
	// streams
	want := map[string]*expStream{}
	for i := range e.Streams {
		want[e.Streams[i].L+">"+e.Streams[i].F] = &e.Streams[i]
	}
	for _, l := range names {
		for _, f := range names {
			st := r.sim.Stream(l, f)
			w := want[l+">"+f]
			if (st != nil) != (w != nil) {
				return "streams", fmt.Sprintf("stream %s>%s: spec %v code %v", l, f, w != nil, st != nil)
			}
			if st == nil {
				continue
			}
			app, ack := st.Queues()
			if len(app) != len(w.App) {
				return "streams", fmt.Sprintf("stream %s>%s: appends in flight spec %v code %v", l, f, w.App, app)
			}
			for i := range app {
				if app[i][0] != w.App[i].O-1 || app[i][1] != cluster.TermToReal(w.App[i].T) || app[i][2] != w.App[i].C-1 {
					return "streams", fmt.Sprintf("stream %s>%s: append #%d spec (o=%d t=%d c=%d) code (o=%d t=%d c=%d) [spec numbering]",
						l, f, i, w.App[i].O, w.App[i].T, w.App[i].C, app[i][0]+1, cluster.TermToSpec(app[i][1]), app[i][2]+1)
				}
			}
			if len(ack) != len(w.Ack) {
				return "acks", fmt.Sprintf("stream %s>%s: acks in flight spec %v code %v (code offsets are 0-based)", l, f, w.Ack, ack)
			}
			for i := range ack {
				if ack[i] != w.Ack[i]-1 {
					return "acks", fmt.Sprintf("stream %s>%s: ack #%d spec %d code %d", l, f, i, w.Ack[i], ack[i]+1)
				}
			}
		}
	}
	// client acknowledgements
	ws := r.sim.Writes()
	for i, w := range ws {
		wantAck := false
		for _, a := range e.Acked {
			if a.Off == r.wOff[i] && a.T == r.wT[i] {
				wantAck = true
			}
		}
		got := w.Done && w.Err == ""
		if got != wantAck {
			return "acked", fmt.Sprintf("write #%d (%s at offset %d term %d on %s): acknowledged spec %v code %v (%s)", i, w.Val, r.wOff[i], r.wT[i], w.Node, wantAck, got, w.Err)
		}
	}
	return "", ""
}

func (r *runner) blRunning(n string) (bool, error) {
	fin, err := r.sim.BecomeLeaderResult(n)
	if r.blStarted[n] && !fin {
		return true, nil
	}
	return false, err
}

func (r *runner) await(e *exp) (string, string) {
	deadline := time.Now().Add(r.timeout)
	var f, w string
	for {
		f, w = r.compare(e)
		if f == "" {
			return "", ""
		}
		if time.Now().After(deadline) {
			return f, w
		}
		time.Sleep(2 * time.Millisecond)
	}
}

func (r *runner) exec(st *step) error {
	s := r.sim
	switch st.A {
	case "Idle", "CoElect", "CoCrash", "CoRestart", "CoRetryNewTerm", "CoSwap":
	case "NewTerm":
		// the handler syncs the WAL before it reads the head: a pending sync round completes with it
		type ntRes struct {
			h   *proto.EntryId
			err error
		}
		ch := make(chan ntRes, 1)
		go func() { h, err := s.NewTerm(st.N, cluster.TermToReal(st.T)); ch <- ntRes{h, err} }()
		var h *proto.EntryId
		var err error
		deadline := time.Now().Add(r.timeout + 5*time.Second + slowSync)
		stalled := false
	wait:
		for {
			select {
			case x := <-ch:
				h, err = x.h, x.err
				break wait
			case <-time.After(2 * time.Millisecond):
				if s.IsParked("sync", st.N, st.N) {
					if slowSync > 0 && !stalled {
						// a slow disk: the pending sync round takes this long (VERIF_SLOWSYNC); the handler
						// has to wait for it - its answer must still be the end of the log
						stalled = true
						time.Sleep(slowSync)
					}
					_ = s.Release("sync", st.N, st.N, time.Millisecond)
				}
				if time.Now().After(deadline) {
					return fmt.Errorf("NewTerm(%s, %d) does not return", st.N, st.T)
				}
			}
		}
		if st.Ok != (err == nil) {
			return fmt.Errorf("NewTerm(%s, %d): spec ok=%v, code error=%v", st.N, st.T, st.Ok, err)
		}
		if err == nil {
			want := st.Head.real()
			if h.Term != want.Term || h.Offset != want.Offset {
				return fmt.Errorf("NewTerm(%s, %d) reported head (t=%d,o=%d), spec (t=%d,o=%d) [spec numbering]",
					st.N, st.T, cluster.TermToSpec(h.Term), h.Offset+1, st.Head.T, st.Head.O)
			}
		}
	case "BecomeLeader":
		if st.Sent {
			fm := map[string]*proto.EntryId{}
			for f, h := range st.Fm {
				hh := h
				fm[f] = hh.real()
			}
			r.blStarted[st.N] = true
			s.BecomeLeaderStart(st.N, cluster.TermToReal(st.T), st.Rf, fm)
			// do not look into the controller while the handler is still attaching followers (it holds
			// the lock and writes its cursor map): wait until it returned or every cursor it created has
			// arrived at the wire
			deadline := time.Now().Add(r.timeout)
			for time.Now().Before(deadline) {
				if fin, _ := s.BecomeLeaderResult(st.N); fin {
					break
				}
				all := true
				for f := range fm {
					if !s.IsParked("connect", st.N, f) && !s.IsParked("snapshot", st.N, f) {
						all = false
					}
				}
				if all {
					break
				}
				time.Sleep(time.Millisecond)
			}
		}
	case "BecomeLeaderTimeout":
		s.BecomeLeaderCancel(st.N)
		deadline := time.Now().Add(r.timeout)
		for {
			fin, _ := s.BecomeLeaderResult(st.N)
			if fin {
				r.blStarted[st.N] = false
				break
			}
			if time.Now().After(deadline) {
				return fmt.Errorf("cancelled BecomeLeader on %s does not return", st.N)
			}
			time.Sleep(2 * time.Millisecond)
		}
	case "CoElected":
		for _, n := range st.Deleted {
			if err := s.DeleteShard(n, cluster.TermToReal(st.T)); err != nil {
				slog.Debug("delete shard", "err", err)
			}
		}
	case "AddFollower":
		if st.Sent {
			_ = s.AddFollower(st.L, cluster.TermToReal(st.T), st.F, st.Head.real())
		}
	case "Write":
		if _, err := s.ClientWrite(st.N, st.V); err != nil {
			return fmt.Errorf("write on %s: %v", st.N, err)
		}
		r.wOff = append(r.wOff, st.Off)
		r.wT = append(r.wT, st.T)
		r.wNode = append(r.wNode, st.N)
	case "Cancel":
		// the client gives up on its pending writes on that leader: nothing may change
		for i, w := range s.Writes() {
			if w.Node != st.N || w.Done {
				continue
			}
			for _, o := range st.Offs {
				if o == r.wOff[i] {
					s.CancelWrite(i)
				}
			}
		}
	case "Sync":
		if err := s.Release("sync", st.N, st.N, r.timeout); err != nil {
			return err
		}
	case "Connect":
		if err := s.Release("connect", st.L, st.F, r.timeout+5*time.Second); err != nil {
			return err
		}
	case "Snapshot":
		if err := s.Release("snapshot", st.L, st.F, r.timeout+5*time.Second); err != nil {
			return err
		}
	case "Append":
		if err := s.DeliverAppend(st.L, st.F); err != nil {
			return err
		}
		// a duplicate of an entry that is not synced yet is synced by the handler itself
		if x := st.Exp.Nodes[st.F]; x != nil && !x.Parked {
			for i := 0; i < 25; i++ {
				if s.IsParked("sync", st.F, st.F) {
					_ = s.Release("sync", st.F, st.F, time.Millisecond)
					break
				}
				if f, _ := r.compare(st.Exp); f == "" {
					break
				}
				time.Sleep(2 * time.Millisecond)
			}
		}
	case "Ack":
		return s.DeliverAck(st.F, st.L)
	case "Reset":
		return s.ResetStream(st.L, st.F)
	case "Crash":
		r.blStarted[st.N] = false
		return s.Crash(st.N)
	case "Restart":
		return s.Restart(st.N)
	default:
		return fmt.Errorf("unknown action %s", st.A)
	}
	return nil
}

func replayOne(beh []step, timeout time.Duration) (*mismatch, error) {
	names := []string{}
	for _, st := range beh {
		if st.Exp != nil {
			for n := range st.Exp.Nodes {
				names = append(names, n)
			}
			break
		}
	}
	sort.Strings(names)
	if len(names) == 0 {
		return nil, nil
	}
	sim, err := cluster.New(names)
	if err != nil {
		return nil, err
	}
	defer func() {
		if onTeardown != nil {
			onTeardown()
		}
		time.Sleep(3 * time.Millisecond) // let read goroutines of the nodes close their iterators
		sim.Close()
	}()
	r := &runner{sim: sim, timeout: timeout, blStarted: map[string]bool{}, wRet: map[int]bool{}}
	defer func() { lastHistory = r.hist }()
	for i := range beh {
		st := &beh[i]
		if st.A == "Idle" {
			continue
		}
		if st.A == "Write" {
			r.hist = append(r.hist, histEv{Ev: "invw", Op: len(r.wOff) + 1, W: len(r.wOff) + 1, Res: []int{}})
		}
		if err := r.exec(st); err != nil {
			kf := []string{}
			if st.Exp != nil {
				kf = st.Exp.Kf
			}
			return &mismatch{Step: i, Action: st.A, Field: "outcome", What: err.Error(), Kf: kf}, nil
		}
		if f, w := r.await(st.Exp); f != "" {
			return &mismatch{Step: i, Action: st.A, Field: f, What: w, Kf: st.Exp.Kf}, nil
		}
		r.observe(names)
	}
	return nil, nil
}

var lastHistory []histEv
var onTeardown func()

func describe(st *step) string {
	switch st.A {
	case "NewTerm":
		return fmt.Sprintf("NewTerm(%s,%d)", st.N, st.T)
	case "Write":
		return fmt.Sprintf("Write(%s,%s)", st.N, st.V)
	case "BecomeLeader":
		fs := []string{}
		for f := range st.Fm {
			fs = append(fs, f)
		}
		sort.Strings(fs)
		return fmt.Sprintf("BecomeLeader(%s,%d,{%s})", st.N, st.T, strings.Join(fs, ","))
	case "Connect", "Snapshot", "Append", "Ack", "Reset", "AddFollower":
		return fmt.Sprintf("%s(%s,%s)", st.A, st.L, st.F)
	default:
		if st.N != "" {
			return fmt.Sprintf("%s(%s)", st.A, st.N)
		}
		return st.A
	}
}

// ---------------------------------------------------------------- race pairs
// Two steps that the specification treats as atomic are issued concurrently on the real nodes; the
// outcome must equal one of the two serializations (whose expectations TLC computed).
type raceCase struct {
	Name   string `json:"name"`
	Prefix []step `json:"prefix"`
	AB     []step `json:"ab"` // the two steps in the order A;B with expectations
	BA     []step `json:"ba"` // the order B;A as far as the specification follows it (1 or 2 steps)
	// TraceOnly: the two steps are not atomic in the code either (several critical sections); the outcome is
	// not compared with the serializations, the controllers' events of the trial are judged by the node rules
	TraceOnly bool `json:"traceonly"`
}

type obs struct {
	ok   bool
	head *proto.EntryId
	err  error
}

// execFree performs a step without judging its direct outcome
func (r *runner) execFree(st *step) obs {
	s := r.sim
	switch st.A {
	case "NewTerm":
		ch := make(chan obs, 1)
		go func() { h, err := s.NewTerm(st.N, cluster.TermToReal(st.T)); ch <- obs{ok: err == nil, head: h, err: err} }()
		deadline := time.Now().Add(r.timeout + 5*time.Second)
		for {
			select {
			case o := <-ch:
				return o
			case <-time.After(time.Millisecond):
				if s.IsParked("sync", st.N, st.N) {
					_ = s.Release("sync", st.N, st.N, time.Millisecond)
				}
				if time.Now().After(deadline) {
					return obs{err: fmt.Errorf("NewTerm does not return")}
				}
			}
		}
	case "Write":
		_, err := s.ClientWrite(st.N, st.V)
		return obs{ok: err == nil, err: err}
	case "Append":
		err := s.DeliverAppend(st.L, st.F)
		return obs{ok: err == nil, err: err}
	case "Ack":
		err := s.DeliverAck(st.F, st.L)
		return obs{ok: err == nil, err: err}
	case "Snapshot":
		// the cursor's snapshot transfer is let go; whether the follower accepts it is part of the outcome
		err := s.Release("snapshot", st.L, st.F, r.timeout+2*time.Second)
		return obs{ok: err == nil, err: err}
	}
	return obs{err: fmt.Errorf("step %s not supported in a race", st.A)}
}

func sameOutcome(st *step, o obs) string {
	if st.A != "NewTerm" {
		return ""
	}
	if st.Ok != o.ok {
		return fmt.Sprintf("NewTerm(%s,%d): ok spec %v code %v (%v)", st.N, st.T, st.Ok, o.ok, o.err)
	}
	if o.ok {
		w := st.Head.real()
		if o.head.Term != w.Term || o.head.Offset != w.Offset {
			return fmt.Sprintf("NewTerm(%s,%d) reported head (t=%d,o=%d), this order demands (t=%d,o=%d)", st.N, st.T,
				cluster.TermToSpec(o.head.Term), o.head.Offset+1, st.Head.T, st.Head.O)
		}
	}
	return ""
}

func raceOne(rc *raceCase, timeout time.Duration, jitter time.Duration, swap bool) (*mismatch, error) {
	names := []string{}
	for n := range rc.AB[0].Exp.Nodes {
		names = append(names, n)
	}
	sort.Strings(names)
	sim, err := cluster.New(names)
	if err != nil {
		return nil, err
	}
	defer sim.Close()
	r := &runner{sim: sim, timeout: timeout, blStarted: map[string]bool{}}
	for i := range rc.Prefix {
		st := &rc.Prefix[i]
		if st.A == "Idle" {
			continue
		}
		if err := r.exec(st); err != nil {
			return &mismatch{Step: i, Action: st.A, Field: "prefix", What: "prefix: " + err.Error()}, nil
		}
		if f, w := r.await(st.Exp); f != "" {
			return &mismatch{Step: i, Action: st.A, Field: "prefix", What: "prefix: " + w}, nil
		}
	}
	nw := len(r.wOff)
	a, b := &rc.AB[0], &rc.AB[1]
	first, second := a, b
	if swap {
		first, second = b, a
	}
	var oa, ob obs
	done := make(chan struct{}, 2)
	run := func(st *step) {
		o := r.execFree(st)
		if st == a {
			oa = o
		} else {
			ob = o
		}
		done <- struct{}{}
	}
	if a.A == "Write" && b.A == "Write" {
		// deterministic schedule for concurrent writers: park them between offset allocation and WAL append
		// and let the one with the higher offset go first
		sim.WriteGate(true)
		stopGate := make(chan struct{})
		defer close(stopGate)
		go func() {
			var since time.Time
			for {
				select {
				case <-stopGate:
					sim.WriteGate(false)
					for _, o := range sim.ParkedWriters() {
						_ = sim.Release("write", "*", fmt.Sprint(o), time.Millisecond)
					}
					return
				case <-time.After(time.Millisecond):
				}
				ws := sim.ParkedWriters()
				switch {
				case len(ws) >= 2:
					_ = sim.Release("write", "*", fmt.Sprint(ws[len(ws)-1]), time.Millisecond)
					time.Sleep(20 * time.Millisecond)
					since = time.Time{}
				case len(ws) == 1:
					if since.IsZero() {
						since = time.Now()
					} else if time.Since(since) > 60*time.Millisecond {
						_ = sim.Release("write", "*", fmt.Sprint(ws[0]), time.Millisecond)
						since = time.Time{}
					}
				default:
					since = time.Time{}
				}
			}
		}()
	}
	go run(first)
	if jitter > 0 {
		time.Sleep(jitter)
	}
	go run(second)
	for k := 0; k < 2; k++ {
		select {
		case <-done:
		case <-time.After(timeout + 10*time.Second):
			return &mismatch{Step: -1, Action: a.A + "||" + b.A, Field: "race", What: "a concurrently issued step does not return"}, nil
		}
	}
	if rc.TraceOnly {
		// let the transfer that was let go finish before the nodes are closed (closing a follower controller
		// under a running snapshot handler makes the unchanged code dereference fc.wal == nil)
		time.Sleep(250 * time.Millisecond)
		return nil, nil
	}
	// judge: one of the two serializations
	var why []string
	orders := [][]step{rc.AB, rc.BA}
	for k, ord := range orders {
		if len(ord) == 0 {
			continue
		}
		// direct outcomes
		bad := ""
		for i := range ord {
			st := &ord[i]
			o := oa
			if st.A == b.A && (st.N == b.N && st.L == b.L && st.F == b.F && st.V == b.V) {
				o = ob
			}
			if d := sameOutcome(st, o); d != "" {
				bad = d
			}
		}
		// offsets of the racing writes in this order
		ws := sim.Writes()
		for len(r.wOff) < len(ws) {
			r.wOff = append(r.wOff, -1)
			r.wT = append(r.wT, -1)
			r.wNode = append(r.wNode, ws[len(r.wOff)-1].Node)
		}
		for i := range ord {
			st := &ord[i]
			if st.A != "Write" {
				continue
			}
			for j := nw; j < len(ws); j++ {
				if ws[j].Val == st.V && ws[j].Node == st.N {
					r.wOff[j], r.wT[j] = st.Off, st.T
				}
			}
		}
		if bad == "" {
			saved := r.timeout
			r.timeout = timeout / 2
			f, w := r.await(ord[len(ord)-1].Exp)
			r.timeout = saved
			if f == "" {
				return nil, nil
			}
			bad = f + ": " + w
		}
		why = append(why, fmt.Sprintf("order %d (%s): %s", k+1, describe(&ord[0]), bad))
	}
	return &mismatch{Step: len(rc.Prefix), Action: describe(a) + " || " + describe(b), Field: "race",
		What: "concurrent steps left the nodes in a state that is neither serialization: " + strings.Join(why, " | ")}, nil
}

// stress: a free-running cluster (no scheduler: the wire delivers at once, WAL syncs are not gated) with
// concurrent writers, elections issued while writes and replication are in flight, and stream resets.
// The controllers write their event trace (VERIF_TRACE), which TLC validates against OxiaNodeTrace.
func stressMain(args []string) {
	fs := flag.NewFlagSet("stress", flag.ExitOnError)
	seed := fs.Int64("seed", 1, "")
	rounds := fs.Int("rounds", 5, "")
	dur := fs.Duration("dur", 1500*time.Millisecond, "")
	faults := fs.Bool("faults", false, "partial elections (one node left out, fenced and added later) and node crashes")
	_ = fs.Parse(args)
	slog.SetDefault(slog.New(slog.NewTextHandler(io.Discard, nil)))
	rng := rand.New(rand.NewSource(*seed))
	names := []string{"a", "b", "c"}
	for round := 0; round < *rounds; round++ {
		sim, err := cluster.New(names)
		if err != nil {
			fmt.Fprintln(os.Stderr, err)
			os.Exit(2)
		}
		sim.SetAuto(true)
		var mu sync.Mutex
		leader := ""
		term := int64(-1)
		elect := func() {
			mu.Lock()
			term++
			t := term
			mu.Unlock()
			type hr struct {
				n string
				h *proto.EntryId
			}
			// sometimes one node is not reached by this election (partition): it stays in its old term and role
			// and is fenced and added as a follower later
			asked := append([]string{}, names...)
			leftOut := ""
			if *faults && rng.Intn(3) == 0 {
				k := rng.Intn(len(asked))
				leftOut = asked[k]
				asked = append(asked[:k], asked[k+1:]...)
			}
			ch := make(chan hr, len(names))
			for _, n := range asked {
				go func(n string) {
					h, err := sim.NewTerm(n, t)
					if err != nil {
						h = nil
					}
					ch <- hr{n, h}
				}(n)
			}
			heads := map[string]*proto.EntryId{}
			for range asked {
				r := <-ch
				if r.h != nil {
					heads[r.n] = r.h
				}
			}
			if len(heads) < 2 {
				return
			}
			best := ""
			for n, h := range heads {
				if best == "" || h.Term > heads[best].Term || (h.Term == heads[best].Term && h.Offset > heads[best].Offset) {
					best = n
				}
			}
			fm := map[string]*proto.EntryId{}
			for n, h := range heads {
				if n != best {
					fm[n] = h
				}
			}
			sim.BecomeLeaderStart(best, t, 3, fm)
			deadline := time.Now().Add(2 * time.Second)
			for time.Now().Before(deadline) {
				if fin, err := sim.BecomeLeaderResult(best); fin {
					if err == nil {
						mu.Lock()
						leader = best
						mu.Unlock()
						if *faults && rng.Intn(3) == 0 {
							// a delayed duplicate of the leader's Truncate request reaches a follower of this term
							// later on (its status is FOLLOWER by then: the request has to be refused)
							dn := names[rng.Intn(len(names))]
							if dn != best {
								if h, ok := heads[dn]; ok {
									hh, delay := &proto.EntryId{Term: h.Term, Offset: h.Offset}, time.Duration(5+rng.Intn(60))*time.Millisecond
									go func() {
										time.Sleep(delay)
										_ = sim.SendTruncate(dn, t, hh)
									}()
								}
							}
						}
						if leftOut != "" && rng.Intn(2) == 0 {
							lo, delay := leftOut, time.Duration(rng.Intn(40))*time.Millisecond
							go func() {
								time.Sleep(delay)
								if h, err := sim.NewTerm(lo, t); err == nil {
									_ = sim.AddFollower(best, t, lo, h)
								}
							}()
						}
					}
					return
				}
				time.Sleep(time.Millisecond)
			}
			sim.BecomeLeaderCancel(best)
		}
		elect()
		stop := make(chan struct{})
		var wg sync.WaitGroup
		for w := 0; w < 4; w++ {
			wg.Add(1)
			go func(w int) {
				defer wg.Done()
				k := 0
				for {
					select {
					case <-stop:
						return
					default:
					}
					mu.Lock()
					l := leader
					mu.Unlock()
					if l != "" {
						_, _ = sim.ClientWrite(l, fmt.Sprintf("s%d-%d", w, k))
						k++
					}
					time.Sleep(time.Duration(200+rng.Intn(800)) * time.Microsecond)
				}
			}(w)
		}
		end := time.Now().Add(*dur)
		for time.Now().Before(end) {
			time.Sleep(time.Duration(40+rng.Intn(160)) * time.Millisecond)
			if *faults && rng.Intn(7) == 0 {
				// a node dies (its unsynced WAL tail and unflushed DB state are lost) and comes back
				n := names[rng.Intn(len(names))]
				mu.Lock()
				if leader == n {
					leader = ""
				}
				mu.Unlock()
				if err := sim.Crash(n); err == nil {
					time.Sleep(time.Duration(rng.Intn(20)) * time.Millisecond)
					_ = sim.Restart(n)
				}
				elect()
			} else if rng.Intn(3) == 0 {
				mu.Lock()
				l := leader
				mu.Unlock()
				f := names[rng.Intn(len(names))]
				if l != "" && f != l {
					_ = sim.ResetStream(l, f)
				}
			} else {
				elect()
			}
		}
		close(stop)
		wg.Wait()
		time.Sleep(20 * time.Millisecond)
		sim.Close()
	}
}

// linstress: free-running shards with concurrent writers and readers; the client history (invocations and
// responses in real-time order) is written in the format of LinTrace.tla, one "reset" line per episode.
func linStressMain(args []string) {
	fs := flag.NewFlagSet("linstress", flag.ExitOnError)
	seed := fs.Int64("seed", 1, "")
	episodes := fs.Int("episodes", 20, "")
	out := fs.String("out", "", "")
	_ = fs.Parse(args)
	slog.SetDefault(slog.New(slog.NewTextHandler(io.Discard, nil)))
	rng := rand.New(rand.NewSource(*seed))
	f, err := os.Create(*out)
	if err != nil {
		fmt.Fprintln(os.Stderr, err)
		os.Exit(2)
	}
	defer f.Close()
	enc := json.NewEncoder(f)
	names := []string{"a", "b", "c"}
	for ep := 0; ep < *episodes; ep++ {
		sim, err := cluster.New(names)
		if err != nil {
			fmt.Fprintln(os.Stderr, err)
			os.Exit(2)
		}
		sim.SetAuto(true)
		var mu sync.Mutex // protects hist, leader, term, installed
		hist := []histEv{{Ev: "reset", Op: ep, Res: []int{}}}
		leader := ""
		term := int64(-1)
		installed := int64(-1)
		nextOp := 0
		elect := func() {
			mu.Lock()
			term++
			t := term
			mu.Unlock()
			type hr struct {
				n string
				h *proto.EntryId
			}
			ch := make(chan hr, len(names))
			for _, n := range names {
				go func(n string) {
					h, err := sim.NewTerm(n, t)
					if err != nil {
						h = nil
					}
					ch <- hr{n, h}
				}(n)
			}
			heads := map[string]*proto.EntryId{}
			for range names {
				r := <-ch
				if r.h != nil {
					heads[r.n] = r.h
				}
			}
			if len(heads) < 2 {
				return
			}
			best := ""
			for n, h := range heads {
				if best == "" || h.Term > heads[best].Term || (h.Term == heads[best].Term && h.Offset > heads[best].Offset) {
					best = n
				}
			}
			fm := map[string]*proto.EntryId{}
			for n, h := range heads {
				if n != best {
					fm[n] = h
				}
			}
			sim.BecomeLeaderStart(best, t, 3, fm)
			deadline := time.Now().Add(2 * time.Second)
			for time.Now().Before(deadline) {
				if fin, err := sim.BecomeLeaderResult(best); fin {
					if err == nil {
						mu.Lock()
						if t > installed {
							installed = t
						}
						leader = best
						mu.Unlock()
					}
					return
				}
				time.Sleep(200 * time.Microsecond)
			}
			sim.BecomeLeaderCancel(best)
		}
		elect()
		var wg sync.WaitGroup
		stop := make(chan struct{})
		nw := 2 + rng.Intn(2)
		per := 4 + rng.Intn(4)
		seeds := make([]int64, 8)
		for i := range seeds {
			seeds[i] = rng.Int63()
		}
		for w := 0; w < nw; w++ {
			wg.Add(1)
			go func(w int) {
				defer wg.Done()
				lr := rand.New(rand.NewSource(seeds[w]))
				for k := 0; k < per; k++ {
					time.Sleep(time.Duration(lr.Intn(3000)) * time.Microsecond)
					mu.Lock()
					l := leader
					mu.Unlock()
					if l == "" {
						continue
					}
					// the invocation is recorded before the call (with the index the write will get)
					mu.Lock()
					wr, err := sim.ClientWrite(l, fmt.Sprintf("s%d-%d", w, k))
					if err != nil || wr == nil {
						mu.Unlock()
						continue
					}
					idx := wr.Idx
					hist = append(hist, histEv{Ev: "invw", Op: idx + 1, W: idx + 1, Res: []int{}})
					mu.Unlock()
					if done, e := sim.WaitWrite(idx, 1500*time.Millisecond); done && e == "" {
						mu.Lock()
						hist = append(hist, histEv{Ev: "retw", Op: idx + 1, Res: []int{}})
						mu.Unlock()
					}
				}
			}(w)
		}
		for r := 0; r < 2; r++ {
			wg.Add(1)
			go func(r int) {
				defer wg.Done()
				lr := rand.New(rand.NewSource(seeds[4+r]))
				for {
					select {
					case <-stop:
						return
					default:
					}
					time.Sleep(time.Duration(500+lr.Intn(2500)) * time.Microsecond)
					n := names[lr.Intn(len(names))]
					mu.Lock()
					nextOp++
					op := 100000 + nextOp
					inst := installed
					hist = append(hist, histEv{Ev: "invr", Op: op, Res: []int{}, Node: n})
					mu.Unlock()
					idx, t, ok := sim.ReadKeys(n)
					mu.Lock()
					if ok {
						res := []int{}
						for _, i := range idx {
							res = append(res, i+1)
						}
						hist = append(hist, histEv{Ev: "retr", Op: op, Res: res, Stale: t < inst, Node: n})
					}
					mu.Unlock()
				}
			}(r)
		}
		// disturbances while the clients run
		nd := 1 + rng.Intn(3)
		for d := 0; d < nd; d++ {
			time.Sleep(time.Duration(2+rng.Intn(8)) * time.Millisecond)
			if rng.Intn(3) == 0 {
				mu.Lock()
				l := leader
				mu.Unlock()
				fn := names[rng.Intn(len(names))]
				if l != "" && fn != l {
					_ = sim.ResetStream(l, fn)
				}
			} else {
				elect()
			}
		}
		// the writers finish on their own; then the readers are stopped
		done := make(chan struct{})
		go func() { wg.Wait(); close(done) }()
		time.Sleep(time.Duration(nw*per*3/2+5) * time.Millisecond)
		close(stop)
		<-done
		time.Sleep(10 * time.Millisecond)
		sim.Close()
		mu.Lock()
		invAt := map[int]int{}
		for i := range hist {
			switch hist[i].Ev {
			case "invr":
				invAt[hist[i].Op] = i
			case "retr":
				j := invAt[hist[i].Op]
				hist[j].HasRet = true
				hist[j].Fut = hist[i].Res
			}
		}
		for i := range hist {
			if hist[i].Ev == "invr" {
				// explicit fields (the trace specification reads them on every invr line)
				fut := hist[i].Fut
				if fut == nil {
					fut = []int{}
				}
				_ = enc.Encode(map[string]any{"ev": "invr", "op": hist[i].Op, "w": 0, "res": []int{}, "stale": false,
					"node": hist[i].Node, "fut": fut, "hasret": hist[i].HasRet})
				continue
			}
			_ = enc.Encode(&hist[i])
		}
		mu.Unlock()
	}
}

func raceMain(args []string) {
	fs := flag.NewFlagSet("race", flag.ExitOnError)
	in := fs.String("in", "", "")
	out := fs.String("out", "", "")
	reps := fs.Int("reps", 20, "")
	timeout := fs.Duration("timeout", 3*time.Second, "")
	seed := fs.Int64("seed", 1, "")
	_ = fs.Parse(args)
	slog.SetDefault(slog.New(slog.NewTextHandler(io.Discard, nil)))
	data, err := os.ReadFile(*in)
	if err != nil {
		fmt.Fprintln(os.Stderr, err)
		os.Exit(2)
	}
	type raceRes struct {
		Cases      int            `json:"cases"`
		Trials     int            `json:"trials"`
		Mismatches []mismatch     `json:"mismatches"`
		ByCase     map[string]int `json:"trials_by_case"`
	}
	res := raceRes{ByCase: map[string]int{}}
	rng := rand.New(rand.NewSource(*seed))
	for _, l := range strings.Split(string(data), "\n") {
		if strings.TrimSpace(l) == "" {
			continue
		}
		var rc raceCase
		if err := json.Unmarshal([]byte(l), &rc); err != nil {
			fmt.Fprintln(os.Stderr, "bad race case:", err)
			os.Exit(2)
		}
		res.Cases++
		found := 0
		for k := 0; k < *reps && found == 0; k++ {
			jit := time.Duration(rng.Intn(400)) * time.Microsecond
			if rc.TraceOnly {
				jit = time.Duration(rng.Intn(4000)) * time.Microsecond // steps made of several critical sections
			}
			if k%4 == 0 {
				jit = 0
			}
			mm, err := raceOne(&rc, *timeout, jit, k%2 == 1)
			if err != nil {
				fmt.Fprintln(os.Stderr, "harness failure:", err)
				os.Exit(2)
			}
			res.Trials++
			res.ByCase[rc.Name]++
			if mm != nil {
				if mm.Field == "prefix" {
					fmt.Fprintln(os.Stderr, "race prefix does not replay:", mm.What)
					os.Exit(2)
				}
				mm.What = rc.Name + ": " + mm.What
				mm.Behaviour = append(append([]step{}, rc.Prefix...), rc.AB...)
				res.Mismatches = append(res.Mismatches, *mm)
				found++
			}
		}
	}
	b, _ := json.Marshal(res)
	if err := os.WriteFile(*out, b, 0o644); err != nil {
		fmt.Fprintln(os.Stderr, err)
		os.Exit(2)
	}
}

type result struct {
	Behaviours  int            `json:"behaviours"`
	Steps       int            `json:"steps"`
	Actions     map[string]int `json:"actions"`
	Mismatches  []mismatch     `json:"mismatches"`
	Unconfirmed int            `json:"unconfirmed"`
	Crashes     int            `json:"crashes"`
	Hung        int            `json:"hung"`
}

// worker: replays the behaviours of one file, one JSON line of progress per event on stdout:
//   {"start": i}   {"end": i, "mismatch": ..., "unconfirmed": bool}
func workerMain(args []string) {
	fs := flag.NewFlagSet("worker", flag.ExitOnError)
	in := fs.String("in", "", "")
	timeout := fs.Duration("timeout", 3*time.Second, "")
	skip := fs.Int("skip", 0, "")
	stride := fs.Int("stride", 1, "")
	offset := fs.Int("offset", 0, "")
	_ = fs.Parse(args)
	slog.SetDefault(slog.New(slog.NewTextHandler(io.Discard, nil)))
	f, err := os.Open(*in)
	if err != nil {
		fmt.Fprintln(os.Stderr, err)
		os.Exit(2)
	}
	sc := bufio.NewScanner(f)
	sc.Buffer(make([]byte, 1<<20), 1<<28)
	enc := json.NewEncoder(os.Stdout)
	i := -1
	for sc.Scan() {
		line := sc.Bytes()
		if len(line) == 0 {
			continue
		}
		i++
		if i < *skip {
			continue
		}
		var beh []step
		if err := json.Unmarshal(line, &beh); err != nil {
			fmt.Fprintln(os.Stderr, "bad behaviour:", err)
			os.Exit(2)
		}
		_ = enc.Encode(map[string]any{"start": i})
		cur := i
		onTeardown = func() { _ = enc.Encode(map[string]any{"teardown": cur}) }
		// watchdog: a behaviour that takes minutes means the harness (or the node) is stuck
		wd := time.AfterFunc(90*time.Second, func() {
			fmt.Fprintln(os.Stderr, "verif harness watchdog: behaviour stuck")
			buf := make([]byte, 1<<20)
			buf = buf[:runtime.Stack(buf, true)]
			for _, g := range strings.Split(string(buf), "\n\n") {
				if strings.Contains(g, "verif/harness") || strings.Contains(g, "oxia/server.") {
					fmt.Fprintln(os.Stderr, g)
				}
			}
			os.Exit(3)
		})
		mm, err := replayOne(beh, *timeout)
		wd.Stop()
		if err != nil {
			fmt.Fprintln(os.Stderr, "harness failure:", err)
			os.Exit(2)
		}
		unconfirmed := false
		if mm != nil {
			// only a mismatch that reproduces with a generous timeout is reported
			mm2, err := replayOne(beh, 5**timeout)
			if err != nil {
				fmt.Fprintln(os.Stderr, "harness failure:", err)
				os.Exit(2)
			}
			if mm2 == nil || mm2.Step != mm.Step || mm2.Field != mm.Field {
				unconfirmed = true
				mm = nil
			} else {
				mm = mm2
				mm.Behaviour = beh[:mm.Step+1]
				calls := []string{}
				for k := range mm.Behaviour {
					if mm.Behaviour[k].A != "Idle" {
						calls = append(calls, describe(&mm.Behaviour[k]))
					}
				}
				mm.What = mm.What + " -- after: " + strings.Join(calls, " ")
			}
		}
		if mm != nil {
			mm.Index = *offset + i**stride
		}
		_ = enc.Encode(map[string]any{"end": i, "mismatch": mm, "unconfirmed": unconfirmed, "history": lastHistory, "index": *offset + i**stride})
	}
}

func main() {
	if len(os.Args) >= 2 && os.Args[1] == "worker" {
		workerMain(os.Args[2:])
		return
	}
	if len(os.Args) >= 2 && os.Args[1] == "stress" {
		stressMain(os.Args[2:])
		return
	}
	if len(os.Args) >= 2 && os.Args[1] == "linstress" {
		linStressMain(os.Args[2:])
		return
	}
	if len(os.Args) >= 2 && os.Args[1] == "race" {
		raceMain(os.Args[2:])
		return
	}
	if len(os.Args) < 2 || os.Args[1] != "replay" {
		fmt.Fprintln(os.Stderr, "usage: shardsim replay -in runs.ndjson -out result.json")
		os.Exit(2)
	}
	fs := flag.NewFlagSet("replay", flag.ExitOnError)
	in := fs.String("in", "", "")
	out := fs.String("out", "", "")
	timeout := fs.Duration("timeout", 3*time.Second, "")
	maxBad := fs.Int("maxbad", 10, "")
	workers := fs.Int("workers", 8, "")
	_ = fs.Parse(os.Args[2:])
	data, err := os.ReadFile(*in)
	if err != nil {
		fmt.Fprintln(os.Stderr, err)
		os.Exit(2)
	}
	lines := []string{}
	for _, l := range strings.Split(string(data), "\n") {
		if strings.TrimSpace(l) != "" {
			lines = append(lines, l)
		}
	}
	res := result{Actions: map[string]int{}}
	for _, l := range lines {
		var beh []step
		if err := json.Unmarshal([]byte(l), &beh); err != nil {
			fmt.Fprintln(os.Stderr, "bad behaviour:", err)
			os.Exit(2)
		}
		res.Behaviours++
		for i := range beh {
			if beh[i].A != "Idle" {
				res.Steps++
				res.Actions[beh[i].A]++
			}
		}
	}
	if *workers > len(lines) {
		*workers = len(lines)
	}
	if *workers < 1 {
		*workers = 1
	}
	type wres struct {
		mm          []mismatch
		unconfirmed int
		crashes     int
		hung        int
		err         error
		hist        []histEv
	}
	ch := make(chan wres, *workers)
	self, _ := os.Executable()
	var stop atomic.Bool
	for w := 0; w < *workers; w++ {
		part := []string{}
		for i := w; i < len(lines); i += *workers {
			part = append(part, lines[i])
		}
		pf := fmt.Sprintf("%s.part%d", *out, w)
		_ = os.WriteFile(pf, []byte(strings.Join(part, "\n")+"\n"), 0o644)
		go func(pf string, n int, w int) {
			var r wres
			skip := 0
			teardownCrashes := 0
			for skip < n && !stop.Load() {
				cmd := exec.Command(self, "worker", "-in", pf, "-timeout", timeout.String(), "-skip", fmt.Sprint(skip),
					"-stride", fmt.Sprint(*workers), "-offset", fmt.Sprint(w))
				var errb strings.Builder
				cmd.Stderr = &errb
				// the controllers' own event trace (hooks under the verif tag), one file per worker process
				cmd.Env = append(os.Environ(), fmt.Sprintf("VERIF_TRACE=%s.nodetrace.%d.%d", *out, w, skip))
				outp, _ := cmd.StdoutPipe()
				if err := cmd.Start(); err != nil {
					r.err = err
					break
				}
				sc := bufio.NewScanner(outp)
				sc.Buffer(make([]byte, 1<<20), 1<<28)
				started, ended := -1, -1
				tearing := false
				for sc.Scan() {
					var ev struct {
						Start       *int      `json:"start"`
						End         *int      `json:"end"`
						Mismatch    *mismatch `json:"mismatch"`
						Unconfirmed bool      `json:"unconfirmed"`
						History     []histEv  `json:"history"`
						Index       int       `json:"index"`
						Teardown    *int      `json:"teardown"`
					}
					if json.Unmarshal(sc.Bytes(), &ev) != nil {
						continue
					}
					if ev.Start != nil {
						started = *ev.Start
						tearing = false
					}
					if ev.Teardown != nil {
						tearing = true
					}
					if ev.End != nil {
						ended = *ev.End
						if ev.Mismatch != nil {
							r.mm = append(r.mm, *ev.Mismatch)
							if len(r.mm) >= *maxBad {
								stop.Store(true)
							}
						}
						if ev.Unconfirmed {
							r.unconfirmed++
						}
						if ev.Mismatch == nil && len(ev.History) > 0 {
							r.hist = append(r.hist, histEv{Ev: "reset", Op: ev.Index, Res: []int{}})
							r.hist = append(r.hist, ev.History...)
						}
					}
					if stop.Load() {
						_ = cmd.Process.Kill()
					}
				}
				err := cmd.Wait()
				if stop.Load() {
					break
				}
				if err == nil {
					break // all behaviours of this part done
				}
				if started > ended && tearing {
					// the process died while the harness was tearing the cluster down (abandoned goroutines of the
					// nodes racing with Close): the behaviour itself was replayed; re-run it once to get its verdict
					teardownCrashes++
					if teardownCrashes <= 3 {
						skip = started
					} else {
						skip = started + 1
					}
					continue
				}
				if started > ended {
					// the process died while replaying behaviour `started`: the real code panicked
					// (or the harness did): reported as a crash of that behaviour
					r.crashes++
					msg := errb.String()
					if k := strings.Index(msg, "panic:"); k >= 0 {
						msg = msg[k:]
					}
					if len(msg) > 1500 {
						msg = msg[:1500]
					}
					if strings.Contains(errb.String(), "verif harness watchdog") {
						r.hung++
						if r.hung <= 2 {
							fmt.Fprintln(os.Stderr, "behaviour stuck (skipped):", errb.String()[:min(len(errb.String()), 3000)])
						}
						skip = started + 1
						continue
					}
					if strings.Contains(msg, "harness failure") || strings.Contains(msg, "verif/harness") && !strings.Contains(msg, "github.com/oxia-db/oxia/server") {
						r.err = fmt.Errorf("worker failed: %s", msg)
						break
					}
					var beh []step
					pl := strings.Split(strings.TrimSpace(readFile(pf)), "\n")
					_ = json.Unmarshal([]byte(pl[started]), &beh)
					r.mm = append(r.mm, mismatch{Index: w + started**workers, Step: -1, Action: "?", Field: "panic", What: "node process panicked: " + msg, Behaviour: beh})
					skip = started + 1
				} else {
					// died between behaviours (teardown of abandoned goroutines): not a finding
					skip = ended + 1
				}
			}
			_ = os.Remove(pf)
			ch <- r
		}(pf, len(part), w)
	}
	var ferr error
	hf, _ := os.Create(*out + ".history.ndjson")
	henc := json.NewEncoder(hf)
	for w := 0; w < *workers; w++ {
		r := <-ch
		for i := range r.hist {
			_ = henc.Encode(&r.hist[i])
		}
		res.Mismatches = append(res.Mismatches, r.mm...)
		res.Unconfirmed += r.unconfirmed
		res.Crashes += r.crashes
		res.Hung += r.hung
		if r.err != nil {
			ferr = r.err
		}
	}
	if ferr != nil && len(res.Mismatches) == 0 {
		fmt.Fprintln(os.Stderr, ferr)
		os.Exit(2)
	}
	b, _ := json.Marshal(res)
	if err := os.WriteFile(*out, b, 0o644); err != nil {
		fmt.Fprintln(os.Stderr, err)
		os.Exit(2)
	}
}

func readFile(p string) string { b, _ := os.ReadFile(p); return string(b) }
