// notifclient binds the SUBSCRIBER of spec/NotifStream.tla to the real client library
// (oxia/notifications.go): what does a client that lost its notification stream send when it connects again?
//
//	notifclient replay -in behaviours.ndjson -out result.json
//	    behaviours exported by TLC (NotifStreamMC) whose first subscription carries no offset (the only way the
//	    client library starts).  The server side is played by a fake OxiaClient gRPC service on a unix socket
//	    that does exactly what the behaviour says the leader does (empty first batch with the commit offset,
//	    batches sent one by one, stream broken at Disconnect / Restart / Elect); the subscriber is the real
//	    oxia.AsyncClient.GetNotifications().  Compared: the StartOffsetExclusive of every (re)connection with the
//	    argument of the behaviour's Subscribe step, and the notifications that reach the application with the
//	    batches sent.
package main

import (
	"bufio"
	"context"
	"encoding/json"
	"flag"
	"fmt"
	"io"
	"log/slog"
	"net"
	"os"
	"path/filepath"
	"sync"
	"time"

	"google.golang.org/grpc"
	"google.golang.org/grpc/codes"
	"google.golang.org/grpc/status"

	"github.com/oxia-db/oxia/oxia"
	"github.com/oxia-db/oxia/proto"
)

const NoStart = -2

type NStep struct {
	A     string `json:"a"`
	Arg   int    `json:"arg"`
	Dummy int    `json:"dummy"`
}

type cmd struct {
	batch *proto.NotificationBatch // nil: end the stream
}

type sub struct {
	req *proto.NotificationsRequest
	cmd chan cmd
}

type fake struct {
	proto.UnimplementedOxiaClientServer
	addr     string
	incoming chan *sub
}

func (f *fake) GetShardAssignments(_ *proto.ShardAssignmentsRequest, stream proto.OxiaClient_GetShardAssignmentsServer) error {
	as := []*proto.ShardAssignment{{Shard: 0, Leader: f.addr, ShardBoundaries: &proto.ShardAssignment_Int32HashRange{
		Int32HashRange: &proto.Int32HashRange{MinHashInclusive: 0, MaxHashInclusive: 0xFFFFFFFF}}}}
	if err := stream.Send(&proto.ShardAssignments{Namespaces: map[string]*proto.NamespaceShardsAssignment{
		"default": {Assignments: as, ShardKeyRouter: proto.ShardKeyRouter_XXHASH3}}}); err != nil {
		return err
	}
	<-stream.Context().Done()
	return nil
}

func (f *fake) GetNotifications(req *proto.NotificationsRequest, stream proto.OxiaClient_GetNotificationsServer) error {
	s := &sub{req: req, cmd: make(chan cmd)}
	select {
	case f.incoming <- s:
	case <-stream.Context().Done():
		return nil
	}
	for {
		select {
		case c := <-s.cmd:
			if c.batch == nil {
				return status.Error(codes.Unavailable, "verif: stream broken")
			}
			if err := stream.Send(c.batch); err != nil {
				return err
			}
		case <-stream.Context().Done():
			return nil
		}
	}
}

type mismatch struct {
	Kind      string  `json:"kind"`
	Behaviour []NStep `json:"behaviour"`
	Step      int     `json:"step"`
	What      string  `json:"what"`
}

func runOne(base string, id int, beh []NStep, wait time.Duration) (*mismatch, error) {
	dir := filepath.Join(base, fmt.Sprintf("nc-%d-%d", os.Getpid(), id))
	if err := os.MkdirAll(dir, 0o755); err != nil {
		return nil, err
	}
	defer os.RemoveAll(dir)
	path := filepath.Join(dir, "s.sock")
	lis, err := net.Listen("unix", path)
	if err != nil {
		return nil, err
	}
	f := &fake{addr: "unix://" + path, incoming: make(chan *sub, 8)}
	srv := grpc.NewServer()
	proto.RegisterOxiaClientServer(srv, f)
	go func() { _ = srv.Serve(lis) }()
	defer srv.Stop()
	cl, err := oxia.NewAsyncClient(f.addr, oxia.WithRequestTimeout(30*time.Second))
	if err != nil {
		return nil, err
	}
	defer cl.Close()
	// the application side: GetNotifications returns once the first (empty) batch has arrived
	type app struct {
		n   oxia.Notifications
		err error
	}
	appCh := make(chan app, 1)
	go func() {
		n, err := cl.GetNotifications()
		appCh <- app{n, err}
	}()
	var notifs oxia.Notifications
	var cur *sub
	fail := func(i int, f string, a ...any) (*mismatch, error) {
		return &mismatch{Kind: "client", Behaviour: beh[:i+1], Step: i, What: fmt.Sprintf(f, a...)}, nil
	}
	for i, st := range beh {
		switch st.A {
		case "Subscribe":
			select {
			case cur = <-f.incoming:
			case <-time.After(wait):
				return fail(i, "the client did not connect (again) within %v", wait)
			}
			got := NoStart
			if cur.req.StartOffsetExclusive != nil {
				got = int(*cur.req.StartOffsetExclusive)
			}
			if got != st.Arg {
				show := func(x int) string {
					if x == NoStart {
						return "no start offset"
					}
					return fmt.Sprintf("StartOffsetExclusive=%d", x)
				}
				return fail(i, "the subscriber connects with %s, the specification's subscriber (last offset seen) with %s", show(got), show(st.Arg))
			}
			if st.Dummy != NoStart {
				cur.cmd <- cmd{&proto.NotificationBatch{Shard: 0, Offset: int64(st.Dummy)}}
			}
			if notifs == nil && st.Dummy != NoStart {
				select {
				case a := <-appCh:
					if a.err != nil {
						return nil, fmt.Errorf("GetNotifications: %v", a.err)
					}
					notifs = a.n
					defer notifs.Close()
				case <-time.After(wait):
					return fail(i, "GetNotifications did not return after the first batch")
				}
			}
		case "Send":
			if cur == nil {
				return nil, fmt.Errorf("harness: Send without a stream")
			}
			key := fmt.Sprintf("k%d", st.Arg)
			v := int64(st.Arg)
			cur.cmd <- cmd{&proto.NotificationBatch{Shard: 0, Offset: int64(st.Arg), Timestamp: 1,
				Notifications: map[string]*proto.Notification{key: {Type: proto.NotificationType_KEY_CREATED, VersionId: &v}}}}
			if notifs == nil {
				return nil, fmt.Errorf("harness: Send before the application has its channel")
			}
			select {
			case n := <-notifs.Ch():
				if n == nil || n.Key != key {
					return fail(i, "batch of offset %d sent, the application received %+v", st.Arg, n)
				}
			case <-time.After(wait):
				return fail(i, "batch of offset %d sent, nothing reached the application", st.Arg)
			}
		case "Disconnect", "Restart", "Elect":
			if cur != nil {
				select {
				case cur.cmd <- cmd{nil}:
				case <-time.After(wait):
				}
				cur = nil
			}
		}
	}
	if notifs != nil {
		select {
		case n := <-notifs.Ch():
			if n != nil {
				return fail(len(beh)-1, "the application received a notification for %q that no batch carried", n.Key)
			}
		default:
		}
	}
	return nil, nil
}

func main() {
	if len(os.Args) < 2 || os.Args[1] != "replay" {
		fmt.Fprintln(os.Stderr, "usage: notifclient replay -in behaviours.ndjson -out result.json")
		os.Exit(2)
	}
	fs := flag.NewFlagSet("replay", flag.ExitOnError)
	in := fs.String("in", "", "")
	out := fs.String("out", "", "")
	workers := fs.Int("workers", 16, "")
	wait := fs.Duration("wait", 20*time.Second, "how long a reconnection / delivery is waited for")
	_ = fs.Parse(os.Args[2:])
	slog.SetDefault(slog.New(slog.NewTextHandler(io.Discard, nil)))
	base := "/dev/shm"
	if _, err := os.Stat(base); err != nil {
		base = os.TempDir()
	}
	f, err := os.Open(*in)
	if err != nil {
		fmt.Fprintln(os.Stderr, err)
		os.Exit(2)
	}
	defer f.Close()
	sc := bufio.NewScanner(f)
	sc.Buffer(make([]byte, 1<<20), 1<<28)
	var behs [][]NStep
	for sc.Scan() {
		var b []NStep
		if err := json.Unmarshal(sc.Bytes(), &b); err != nil {
			fmt.Fprintln(os.Stderr, "bad behaviour:", err)
			os.Exit(2)
		}
		behs = append(behs, b)
	}
	type result struct {
		Behaviours int        `json:"behaviours"`
		Mismatches []mismatch `json:"mismatches"`
	}
	var res result
	var mu sync.Mutex
	var herr error
	seen := map[string]bool{}
	jobs := make(chan int, len(behs))
	for i := range behs {
		jobs <- i
	}
	close(jobs)
	var wg sync.WaitGroup
	for w := 0; w < *workers; w++ {
		wg.Add(1)
		go func() {
			defer wg.Done()
			for i := range jobs {
				mm, err := runOne(base, i, behs[i], *wait)
				if mm != nil && err == nil {
					// only a mismatch that reproduces is reported
					mm2, err2 := runOne(base, i+len(behs), behs[i], *wait)
					if err2 != nil || mm2 == nil || mm2.Step != mm.Step {
						err = fmt.Errorf("a mismatch at step %d did not reproduce on re-execution: %s", mm.Step, mm.What)
					}
				}
				mu.Lock()
				res.Behaviours++
				if err != nil && herr == nil {
					herr = err
				}
				if mm != nil && err == nil && !seen[mm.What] {
					seen[mm.What] = true
					res.Mismatches = append(res.Mismatches, *mm)
				}
				mu.Unlock()
			}
		}()
	}
	wg.Wait()
	if herr != nil {
		fmt.Fprintln(os.Stderr, "harness failure:", herr)
		os.Exit(2)
	}
	b, _ := json.Marshal(res)
	if err := os.WriteFile(*out, b, 0o644); err != nil {
		fmt.Fprintln(os.Stderr, err)
		os.Exit(2)
	}
	_ = context.Background
}
