// statuscheck runs a real coordinator StatusResource (coordinator/resources) on a logging in-memory metadata
// provider under concurrent use: one "election" writer (UpdateShardMetadata with term + 1, as electLeader
// does before NewTerm is sent) and three "configuration" writers (LoadWithVersion ... Swap, as
// ConfigChanged does). Every durable store and every load / failed swap is recorded, in the order in which
// they take effect, for validation against spec/StatusRes.tla (StatusResTrace.tla).
//
//	statuscheck -seed S -rounds R -out trace.ndjson
package main

import (
	"encoding/json"
	"flag"
	"fmt"
	"io"
	"log/slog"
	"math/rand"
	"os"
	"sync"
	"time"

	"github.com/oxia-db/oxia/coordinator/metadata"
	"github.com/oxia-db/oxia/coordinator/model"
	"github.com/oxia-db/oxia/coordinator/resources"
)

type event struct {
	Ev     string `json:"ev"`
	C      string `json:"c"`
	By     string `json:"by"`
	Ver    int64  `json:"ver"`
	Term   int64  `json:"term"`
	NMarks int    `json:"nmarks"`
}

type rec struct {
	mu   sync.Mutex
	hist []event
}

func (r *rec) add(e event) { r.mu.Lock(); r.hist = append(r.hist, e); r.mu.Unlock() }

// provider: in-memory metadata store with versions; a store takes a little while (as a real one does) and is
// recorded at the moment it takes effect
type provider struct {
	mu    sync.Mutex
	cs    *model.ClusterStatus
	ver   int64
	r     *rec
	delay func() time.Duration
}

func (p *provider) Close() error { return nil }

func (p *provider) Get() (*model.ClusterStatus, metadata.Version, error) {
	p.mu.Lock()
	defer p.mu.Unlock()
	if p.cs == nil {
		return nil, metadata.NotExists, nil
	}
	return p.cs.Clone(), metadata.Version(fmt.Sprint(p.ver)), nil
}

const ns, shard = "default", int64(0)

func termOf(cs *model.ClusterStatus) int64 { return cs.Namespaces[ns].Shards[shard].Term }

func writerOf(cs *model.ClusterStatus) string {
	// the configuration writers leave their name in the status (a namespace "by/<name>/<n>"); the last one added
	// is kept in ServerIdx-independent form in the namespace "last"
	if l, ok := cs.Namespaces["last"]; ok {
		for k := range l.Shards {
			return fmt.Sprintf("c%d", k)
		}
	}
	return ""
}

func (p *provider) Store(cs *model.ClusterStatus, expected metadata.Version) (metadata.Version, error) {
	time.Sleep(p.delay())
	p.mu.Lock()
	defer p.mu.Unlock()
	cur := metadata.NotExists
	if p.cs != nil {
		cur = metadata.Version(fmt.Sprint(p.ver))
	}
	if expected != cur {
		return "", metadata.ErrMetadataBadVersion
	}
	by := "election"
	if p.cs != nil && len(cs.Namespaces) != len(p.cs.Namespaces) {
		by = writerOf(cs)
	} else if p.cs != nil && writerOf(cs) != writerOf(p.cs) {
		by = writerOf(cs)
	}
	p.cs = cs.Clone()
	p.ver++
	if by != "init" {
		p.r.add(event{Ev: "store", By: by, Term: termOf(cs), NMarks: len(cs.Namespaces) - 1})
	}
	return metadata.Version(fmt.Sprint(p.ver)), nil
}

func main() {
	seed := flag.Int64("seed", 1, "")
	rounds := flag.Int("rounds", 30, "")
	out := flag.String("out", "", "")
	flag.Parse()
	slog.SetDefault(slog.New(slog.NewTextHandler(io.Discard, nil)))
	rng := rand.New(rand.NewSource(*seed))
	f, err := os.Create(*out)
	if err != nil {
		fmt.Fprintln(os.Stderr, "harness failure:", err)
		os.Exit(2)
	}
	defer f.Close()
	enc := json.NewEncoder(f)
	for round := 0; round < *rounds; round++ {
		r := &rec{}
		var dmu sync.Mutex
		drng := rand.New(rand.NewSource(rng.Int63()))
		p := &provider{r: r, delay: func() time.Duration {
			dmu.Lock()
			defer dmu.Unlock()
			return time.Duration(20+drng.Intn(300)) * time.Microsecond
		}}
		// initial status: one namespace with one shard at term 0 (not recorded: the model starts there)
		p.cs = &model.ClusterStatus{Namespaces: map[string]model.NamespaceStatus{
			ns: {ReplicationFactor: 1, Shards: map[int64]model.ShardMetadata{shard: {Term: 0}}}}}
		p.ver = 0
		sr := resources.NewStatusResource(p)
		r.add(event{Ev: "round"})
		var wg sync.WaitGroup
		stop := make(chan struct{})
		// the election writer
		wg.Add(1)
		go func() {
			defer wg.Done()
			lr := rand.New(rand.NewSource(rng.Int63()))
			for t := int64(1); ; t++ {
				select {
				case <-stop:
					return
				default:
				}
				md := sr.Load().Namespaces[ns].Shards[shard]
				md.Term = t
				sr.UpdateShardMetadata(ns, shard, md)
				time.Sleep(time.Duration(lr.Intn(300)) * time.Microsecond)
			}
		}()
		seeds := []int64{rng.Int63(), rng.Int63(), rng.Int63()}
		for c := 1; c <= 3; c++ {
			wg.Add(1)
			go func(c int) {
				defer wg.Done()
				name := fmt.Sprintf("c%d", c)
				lr := rand.New(rand.NewSource(seeds[c-1]))
				for k := 0; ; k++ {
					select {
					case <-stop:
						return
					default:
					}
					// what ConfigChanged does: load, compute, swap; on failure reload
					cur, v := sr.LoadWithVersion()
					var vi int64
					_, _ = fmt.Sscan(string(v), &vi)
					// recorded after the call (a store may slip in between: the line then shows an older version)
					r.add(event{Ev: "load", C: name, Ver: vi, Term: termOf(cur)})
					nw := cur.Clone()
					nw.Namespaces["last"] = model.NamespaceStatus{Shards: map[int64]model.ShardMetadata{int64(c): {}}}
					nw.Namespaces[fmt.Sprintf("by/%s/%d", name, k)] = model.NamespaceStatus{}
					time.Sleep(time.Duration(lr.Intn(400)) * time.Microsecond) // computing the new assignment
					if !sr.Swap(nw, v) {
						r.add(event{Ev: "swapfail", C: name})
					}
					time.Sleep(time.Duration(lr.Intn(300)) * time.Microsecond)
				}
			}(c)
		}
		time.Sleep(40 * time.Millisecond)
		close(stop)
		wg.Wait()
		for i := range r.hist {
			_ = enc.Encode(&r.hist[i])
		}
	}
}
