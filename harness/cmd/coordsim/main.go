// coordsim drives a real coordinator ShardController (coordinator/controllers) against scripted storage
// nodes and a logging metadata store, and records every input/output event for validation by
// spec/OxiaCoordTrace.tla.
//
//	coordsim drive -seed S -n N -out trace.ndjson
//
// The environment (which nodes answer NewTerm, with which head, in which order, who stays silent, whether
// BecomeLeader succeeds, when the coordinator crashes and restarts, node swaps) is chosen at random from
// the seed. All events are appended to one log under one lock: the order is the order in which the
// controller's calls reached the store / the RPC provider and in which answers were handed back.
package main

import (
	"context"
	"encoding/json"
	"errors"
	"flag"
	"fmt"
	"io"
	"log/slog"
	"math/rand"
	"os"
	"sync"
	"time"

	"github.com/emirpasic/gods/v2/sets/linkedhashset"
	"google.golang.org/grpc/health/grpc_health_v1"

	"github.com/oxia-db/oxia/coordinator/controllers"
	"github.com/oxia-db/oxia/coordinator/metadata"
	"github.com/oxia-db/oxia/coordinator/model"
	"github.com/oxia-db/oxia/proto"
)

type head struct {
	T int64 `json:"t"`
	O int64 `json:"o"`
}

type fmEntry struct {
	N string `json:"n"`
	T int64  `json:"t"`
	O int64  `json:"o"`
}

type metaJ struct {
	Term    int64    `json:"term"`
	Ens     []string `json:"ens"`
	Removed []string `json:"removed"`
	Leader  string   `json:"leader"`
	St      string   `json:"st"`
}

type event struct {
	Ev   string    `json:"ev"`
	Meta *metaJ    `json:"meta"`
	N    string    `json:"n"`
	L    string    `json:"l"`
	F    string    `json:"f"`
	T    int64     `json:"t"`
	Ok   bool      `json:"ok"`
	Head head      `json:"head"`
	Rf   int       `json:"rf"`
	Fm   []fmEntry `json:"fm"`
}

func srv(name string) model.Server {
	n := name
	return model.Server{Name: &n, Public: name + ":6648", Internal: name}
}

func names(l []model.Server) []string {
	out := []string{}
	for _, s := range l {
		out = append(out, s.GetIdentifier())
	}
	return out
}

func toMetaJ(m model.ShardMetadata) *metaJ {
	j := &metaJ{Term: m.Term, Ens: names(m.Ensemble), Removed: names(m.RemovedNodes), Leader: "none", St: m.Status.String()}
	if m.Leader != nil {
		j.Leader = m.Leader.GetIdentifier()
	}
	return j
}

// world is the scripted environment of one trace
type world struct {
	mu      sync.Mutex
	log     []event
	rng     *rand.Rand
	stored  model.ShardMetadata
	gen     int // incarnation of the controller; calls of older incarnations are ignored
	// script knobs for the current election round
	silent  map[string]bool
	failNT  map[string]bool
	heads   map[string]head
	blFail  bool
	delay   map[string]time.Duration
	events  int
	crashAt int // crash when this many events were logged (0 = never)
	crashCh chan struct{}
}

func (w *world) add(e event) {
	if e.Fm == nil {
		e.Fm = []fmEntry{}
	}
	if e.Meta == nil {
		e.Meta = &metaJ{Ens: []string{}, Removed: []string{}}
	}
	w.log = append(w.log, e)
	w.events++
	if w.crashAt > 0 && w.events == w.crashAt {
		select {
		case w.crashCh <- struct{}{}:
		default:
		}
	}
}

// ---- metadata store
type statusRes struct {
	w   *world
	gen int
}

func (s *statusRes) Load() *model.ClusterStatus { return &model.ClusterStatus{} }
func (s *statusRes) LoadWithVersion() (*model.ClusterStatus, metadata.Version) {
	return &model.ClusterStatus{}, ""
}
func (s *statusRes) Swap(*model.ClusterStatus, metadata.Version) bool { return true }
func (s *statusRes) Update(*model.ClusterStatus)                      {}
func (s *statusRes) UpdateShardMetadata(_ string, _ int64, m model.ShardMetadata) {
	s.w.mu.Lock()
	defer s.w.mu.Unlock()
	if s.gen != s.w.gen {
		return // a dead incarnation cannot write any more
	}
	s.w.stored = m.Clone()
	s.w.add(event{Ev: "Store", Meta: toMetaJ(m)})
}
func (s *statusRes) DeleteShardMetadata(string, int64) {}

// ---- cluster config
type cfgRes struct{}

func (cfgRes) Close() error              { return nil }
func (cfgRes) Load() *model.ClusterConfig { return &model.ClusterConfig{} }
func (cfgRes) Nodes() *linkedhashset.Set[string] {
	return linkedhashset.New[string]()
}
func (cfgRes) NodesWithMetadata() (*linkedhashset.Set[string], map[string]model.ServerMetadata) {
	return linkedhashset.New[string](), map[string]model.ServerMetadata{}
}
func (cfgRes) NamespaceConfig(string) (*model.NamespaceConfig, bool) { return nil, false }
func (cfgRes) Node(string) (*model.Server, bool)                      { return nil, false }

type listener struct{}

func (listener) LeaderElected(int64, model.Server, []model.Server) {}
func (listener) ShardDeleted(int64)                                 {}

// ---- scripted storage nodes
type fakeRPC struct {
	w   *world
	gen int
}

var errNode = errors.New("node unavailable")

func (r *fakeRPC) PushShardAssignments(context.Context, model.Server) (proto.OxiaCoordination_PushShardAssignmentsClient, error) {
	return nil, errNode
}
func (r *fakeRPC) GetHealthClient(model.Server) (grpc_health_v1.HealthClient, io.Closer, error) {
	return nil, nil, errNode
}
func (r *fakeRPC) ClearPooledConnections(model.Server) {}

func (r *fakeRPC) dead() bool { return r.gen != r.w.gen }

func (r *fakeRPC) NewTerm(ctx context.Context, node model.Server, req *proto.NewTermRequest) (*proto.NewTermResponse, error) {
	n := node.GetIdentifier()
	r.w.mu.Lock()
	if r.dead() {
		r.w.mu.Unlock()
		<-ctx.Done()
		return nil, ctx.Err()
	}
	r.w.add(event{Ev: "SendNewTerm", N: n, T: req.Term})
	silent, fail, h, d := r.w.silent[n], r.w.failNT[n], r.w.heads[n], r.w.delay[n]
	r.w.mu.Unlock()
	if silent {
		<-ctx.Done()
		return nil, ctx.Err()
	}
	select {
	case <-time.After(d):
	case <-ctx.Done():
		return nil, ctx.Err()
	}
	r.w.mu.Lock()
	defer r.w.mu.Unlock()
	if r.dead() {
		return nil, errNode
	}
	r.w.add(event{Ev: "RecvNewTerm", N: n, T: req.Term, Ok: !fail, Head: h})
	if fail {
		return nil, errNode
	}
	return &proto.NewTermResponse{HeadEntryId: &proto.EntryId{Term: h.T, Offset: h.O}}, nil
}

func (r *fakeRPC) BecomeLeader(ctx context.Context, node model.Server, req *proto.BecomeLeaderRequest) (*proto.BecomeLeaderResponse, error) {
	r.w.mu.Lock()
	defer r.w.mu.Unlock()
	if r.dead() {
		return nil, errNode
	}
	fm := []fmEntry{}
	for f, h := range req.FollowerMaps {
		fm = append(fm, fmEntry{N: f, T: h.Term, O: h.Offset})
	}
	r.w.add(event{Ev: "SendBecomeLeader", N: node.GetIdentifier(), T: req.Term, Rf: int(req.ReplicationFactor), Fm: fm})
	fail := r.w.blFail
	r.w.add(event{Ev: "RecvBecomeLeader", Ok: !fail})
	if fail {
		return nil, errNode
	}
	return &proto.BecomeLeaderResponse{}, nil
}

func (r *fakeRPC) AddFollower(_ context.Context, node model.Server, req *proto.AddFollowerRequest) (*proto.AddFollowerResponse, error) {
	r.w.mu.Lock()
	defer r.w.mu.Unlock()
	if r.dead() {
		return nil, errNode
	}
	r.w.add(event{Ev: "SendAddFollower", L: node.GetIdentifier(), F: req.FollowerName, T: req.Term,
		Head: head{req.FollowerHeadEntryId.Term, req.FollowerHeadEntryId.Offset}})
	return &proto.AddFollowerResponse{}, nil
}

func (r *fakeRPC) GetStatus(_ context.Context, node model.Server, _ *proto.GetStatusRequest) (*proto.GetStatusResponse, error) {
	r.w.mu.Lock()
	defer r.w.mu.Unlock()
	// used by verifyCurrentEnsemble after a restart and by the catch-up wait after a swap
	st := proto.ServingStatus_FOLLOWER
	if r.w.stored.Leader != nil && r.w.stored.Leader.GetIdentifier() == node.GetIdentifier() {
		st = proto.ServingStatus_LEADER
	}
	if r.w.rng.Intn(4) == 0 {
		return nil, errNode
	}
	return &proto.GetStatusResponse{Term: r.w.stored.Term, Status: st, HeadOffset: 10, CommitOffset: 10}, nil
}

func (r *fakeRPC) DeleteShard(_ context.Context, node model.Server, req *proto.DeleteShardRequest) (*proto.DeleteShardResponse, error) {
	r.w.mu.Lock()
	defer r.w.mu.Unlock()
	if r.dead() {
		return nil, errNode
	}
	r.w.add(event{Ev: "SendDeleteShard", N: node.GetIdentifier(), T: req.Term})
	return &proto.DeleteShardResponse{}, nil
}

func (w *world) newRound(all []string) {
	w.silent, w.failNT, w.heads, w.delay = map[string]bool{}, map[string]bool{}, map[string]head{}, map[string]time.Duration{}
	for _, n := range all {
		switch x := w.rng.Intn(10); {
		case x < 2:
			w.silent[n] = true
		case x < 3:
			w.failNT[n] = true
		}
		w.heads[n] = head{T: int64(w.rng.Intn(3)) - 1, O: int64(w.rng.Intn(4)) - 1}
		if w.heads[n].T == -1 || w.heads[n].O == -1 {
			w.heads[n] = head{-1, -1}
		}
		// some answers arrive only during / after the grace period of newTermQuorum
		w.delay[n] = time.Duration(w.rng.Intn(4)) * 5 * time.Millisecond
		if w.rng.Intn(5) == 0 {
			w.delay[n] = time.Duration(40+w.rng.Intn(120)) * time.Millisecond
		}
	}
	w.blFail = w.rng.Intn(6) == 0
}

func oneTrace(seed int64, enc *json.Encoder) {
	rng := rand.New(rand.NewSource(seed))
	w := &world{rng: rng, crashCh: make(chan struct{}, 1)}
	all := []string{"s1", "s2", "s3", "s4"}
	ens := []model.Server{srv("s1"), srv("s2"), srv("s3")}
	w.stored = model.ShardMetadata{Status: model.ShardStatusUnknown, Term: int64(rng.Intn(3)) - 1, Ensemble: ens}
	nc := &model.NamespaceConfig{Name: "default", ReplicationFactor: 3}
	w.mu.Lock()
	w.log = append(w.log, event{Ev: "Reset", Meta: toMetaJ(w.stored), Fm: []fmEntry{}})
	w.newRound(all)
	if rng.Intn(3) == 0 {
		w.crashAt = 2 + rng.Intn(14)
	}
	w.mu.Unlock()

	start := func() controllers.ShardController {
		w.mu.Lock()
		g, m := w.gen, w.stored.Clone()
		w.mu.Unlock()
		return controllers.NewShardController("default", 0, nc, m, cfgRes{}, &statusRes{w, g}, listener{}, &fakeRPC{w, g})
	}
	sc := start()
	steps := 2 + rng.Intn(3)
	for i := 0; i < steps; i++ {
		// let the controller work: an election takes the grace period (100 ms) plus retries
		deadline := time.After(time.Duration(250+rng.Intn(250)) * time.Millisecond)
		crashed := false
		select {
		case <-w.crashCh:
			crashed = true
		case <-deadline:
		}
		if crashed {
			w.mu.Lock()
			w.gen++
			w.add(event{Ev: "Crash"})
			w.crashAt = 0
			w.mu.Unlock()
			go func(c controllers.ShardController) { _ = c.Close() }(sc)
			time.Sleep(5 * time.Millisecond)
			w.mu.Lock()
			w.add(event{Ev: "Restart"})
			w.newRound(all)
			w.mu.Unlock()
			sc = start()
			continue
		}
		// next disturbance: leader failure or node swap
		w.mu.Lock()
		w.newRound(all)
		leader := w.stored.Leader
		cur := w.stored.Clone()
		w.mu.Unlock()
		switch x := rng.Intn(3); {
		case x == 0 && leader != nil:
			sc.NodeBecameUnavailable(*leader)
		case x == 1 && cur.Status == model.ShardStatusSteadyState && len(cur.RemovedNodes) == 0:
			from := cur.Ensemble[rng.Intn(len(cur.Ensemble))]
			var to *model.Server
			for _, n := range all {
				found := false
				for _, e := range cur.Ensemble {
					if e.GetIdentifier() == n {
						found = true
					}
				}
				if !found {
					s := srv(n)
					to = &s
				}
			}
			if to != nil {
				go func() { _ = sc.SwapNode(from, *to) }()
			}
		}
	}
	time.Sleep(150 * time.Millisecond)
	w.mu.Lock()
	w.gen++ // silence everything that is still running
	evs := w.log
	w.mu.Unlock()
	go func(c controllers.ShardController) { _ = c.Close() }(sc)
	for i := range evs {
		_ = enc.Encode(&evs[i])
	}
}

func main() {
	if len(os.Args) < 2 || os.Args[1] != "drive" {
		fmt.Fprintln(os.Stderr, "usage: coordsim drive -seed S -n N -out trace.ndjson")
		os.Exit(2)
	}
	fs := flag.NewFlagSet("drive", flag.ExitOnError)
	seed := fs.Int64("seed", 1, "")
	n := fs.Int("n", 20, "")
	out := fs.String("out", "trace.ndjson", "")
	_ = fs.Parse(os.Args[2:])
	slog.SetDefault(slog.New(slog.NewTextHandler(io.Discard, nil)))
	f, err := os.Create(*out)
	if err != nil {
		fmt.Fprintln(os.Stderr, err)
		os.Exit(2)
	}
	defer f.Close()
	// traces are independent: run them concurrently, write them one after the other
	type res struct {
		i   int
		buf []byte
	}
	ch := make(chan res, *n)
	sem := make(chan struct{}, 8)
	for i := 0; i < *n; i++ {
		go func(i int) {
			sem <- struct{}{}
			defer func() { <-sem }()
			var b jsonBuf
			oneTrace(*seed*100000+int64(i), json.NewEncoder(&b))
			ch <- res{i, b.b}
		}(i)
	}
	bufs := make([][]byte, *n)
	for i := 0; i < *n; i++ {
		r := <-ch
		bufs[r.i] = r.buf
	}
	for _, b := range bufs {
		_, _ = f.Write(b)
	}
}

type jsonBuf struct{ b []byte }

func (j *jsonBuf) Write(p []byte) (int, error) { j.b = append(j.b, p...); return len(p), nil }
