// walrecover binds spec/WalRecovery.tla to the real recovery path of server/wal.
//
//	walrecover run -in images.ndjson -out obs.ndjson -seed S [-skip N]
//	    every input line is an abstract crash/corruption image (exported by TLC from WalRecovery.tla, or
//	    produced by `gen`).  For each image a real WAL is built (real appends + syncs + close), its segment
//	    files are rewritten to the bytes the image stands for, the WAL is reopened through the real
//	    recovery path (VerifNewWal with a CommitOffsetProvider) under panic recovery and a watchdog, read
//	    back completely, optionally extended by new appends, closed and reopened once more.  The observed
//	    outcome is written as one line per image; TLC (WalRecoveryTrace.tla) is the judge.
//	    exit 0 = all images processed, 3 = stopped after a hang (resume with -skip), 2 = harness trouble.
//	walrecover gen -seed S -n N -codec v2|v1 -out images.ndjson
//	    random images, larger than what TLC enumerates (more records, other segment sizes, arbitrary sizes,
//	    damage at arbitrary byte positions with arbitrary values).
package main

import (
	"bufio"
	"bytes"
	"context"
	"encoding/binary"
	"encoding/json"
	"flag"
	"fmt"
	"io"
	"log/slog"
	"math/rand"
	"os"
	"path/filepath"
	"runtime"
	"sort"
	"strings"
	"time"

	pb "google.golang.org/protobuf/proto"

	time2 "github.com/oxia-db/oxia/common/time"
	"github.com/oxia-db/oxia/proto"
	"github.com/oxia-db/oxia/server/wal"
	"github.com/oxia-db/oxia/server/wal/codec"
)

// timestamps are fixed64 and come last in the marshalled entry: the high bytes must not be zero, otherwise
// tearing off the last bytes of a record changes nothing
const t0 = uint64(0x5a5b5c5d5e5f0101)

var hangTimeout = 3 * time.Second

// ---------------------------------------------------------------------------------------------------
// the abstract image (field names = record fields of WalRecovery.tla)

type damage struct {
	Rec   int64  `json:"rec"`   // damaged record (offset), -1 = none
	Field string `json:"field"` // none | size | prevcrc | crc | payload | record | splice
	Cls   string `json:"cls"`   // value class (size: s0 s1 exact plus1 max31 ovf_lo ovf_at ovf_max; others: rand zero; splice: donor)
	At    int64  `json:"at"`    // concretization: byte offset inside the field (payload) / donor record (splice)
	Val   string `json:"val"`   // concretization: value written (decimal; a string because it may exceed TLC's integers)
}

type outcome struct {
	Res    string  `json:"res"`   // ok | error | hole (an offset inside [first, last] is answered with "no such offset") | panic | hang | inconsistent | na
	Where  string  `json:"where"` // free text, for humans
	First  int64   `json:"first"`
	Last   int64   `json:"last"`
	Ents   []int64 `json:"ents"` // id of the entry read at first+i (id = offset it was appended at; post-crash appends: 100+j); -1 = not identical to anything appended
	PRes   string  `json:"pres"` // none | ok | error | panic | hang | inconsistent   (append + close + reopen after the recovery)
	PWhere string  `json:"pwhere"`
	PFirst int64   `json:"pfirst"`
	PLast  int64   `json:"plast"`
	PEnts  []int64 `json:"pents"`
}

// round is one step of the history of the pre-crash state: the entries App (payload sizes) are appended, then
// TruncateLog(Keep) removes everything above offset Keep (-1 = the whole log).
type round struct {
	App  []int64 `json:"app"`
	Keep int64   `json:"keep"`
}

type image struct {
	Codec  string   `json:"codec"`
	Seg    int64    `json:"seg"`
	Sizes  []int64  `json:"sizes"`
	Synced int64    `json:"synced"`
	Commit int64    `json:"commit"`
	Rs     []string `json:"rs"`   // per record: complete | absent | tornh | tornp
	Lost   int64    `json:"lost"` // number of newest segment files that never reached the disk
	Idx    []string `json:"idx"`  // per read-only segment of the crashed WAL: ok | missing | empty | short | trunc | zeros | flip
	Dmg    damage   `json:"dmg"`
	Post   []int64  `json:"post"`  // sizes of entries appended after the recovery
	Hist   []round  `json:"hist"`  // rounds of append + TruncateLog in front of the appends that complete Sizes (WalRecovery.tla: History)
	Tear   []int64  `json:"tear"`  // concretization: bytes kept of every torn record (-1 = chosen by seed)
	RSeed  int64    `json:"rseed"` // concretization: seed of everything else that is chosen at random (0 = derived from -seed)
	Exp    outcome  `json:"exp"`   // what the operational model of WalRecovery.tla computes (informative)
	Obs    outcome  `json:"obs"`
}

func headerSize(c string) int64 {
	if c == "v1" {
		return 4
	}
	return 12
}

type rec struct {
	seg  int   // index into bases
	pos  int64 // byte position in the segment file
	size int64 // payload size
}

// layout = the rollover rule of wal_impl.go / readwrite_segment.go:HasSpace (same as Wal.tla)
func layout(sizes []int64, h, seg int64) (recs []rec, bases []int64, err error) {
	cur := int64(0)
	bases = []int64{0}
	for i, sz := range sizes {
		if h+sz > seg {
			return nil, nil, fmt.Errorf("entry %d does not fit a segment", i)
		}
		if cur+h+sz > seg {
			bases = append(bases, int64(i))
			cur = 0
		}
		recs = append(recs, rec{seg: len(bases) - 1, pos: cur, size: sz})
		cur += h + sz
	}
	return recs, bases, nil
}

// ---------------------------------------------------------------------------------------------------
// entries

func value(id int64, l int) []byte {
	v := make([]byte, l)
	for i := range v {
		v[i] = byte((id*31+int64(i)*7+1)&0xff) | 1 // never zero: a tear always loses information
	}
	if l >= 2 {
		v[0], v[1] = byte(id>>8)|0x40, byte(id)|0x80
	}
	return v
}

func mkEntry(off, id, size int64) (*proto.LogEntry, error) {
	e := &proto.LogEntry{Term: 1 + id%3, Offset: off, Timestamp: t0 + uint64(id)}
	for l := int(size); l >= 2; l-- {
		e.Value = value(id, l)
		n := pb.Size(e)
		if int64(n) == size {
			return e, nil
		}
		if int64(n) < size {
			break
		}
	}
	return nil, fmt.Errorf("cannot build an entry of marshalled size %d", size)
}

func sameEntry(a, b *proto.LogEntry) bool {
	return a.Term == b.Term && a.Offset == b.Offset && a.Timestamp == b.Timestamp && bytes.Equal(a.Value, b.Value)
}

type commitProv struct{ c int64 }

func (p *commitProv) CommitOffset() int64 { return p.c }

// ---------------------------------------------------------------------------------------------------
// base WALs (content before the crash), cached per (codec, seg, sizes)

type base struct {
	files map[string][]byte // file name -> content after a clean close
	recs  []rec
	bases []int64
	orig  []*proto.LogEntry
	raw   [][]byte                  // marshalled payloads
	stale map[int64]*proto.LogEntry // entries that the history removed, by id (WalRecovery.tla: StaleId)
}

// staleID is StaleId of WalRecovery.tla: the id of an entry appended in round r (1..) at offset o that a truncation removes.
func staleID(r int, o int64) int64 { return 200 + 20*int64(r-1) + o }

// histPlan turns the history into the sequence of real calls: per round the entries to append (with their ids) and
// the truncation point; rest = index of the first entry of Sizes that is appended after the last round.
type histStep struct {
	app  []*proto.LogEntry
	keep int64
}

func histPlan(im *image) (steps []histStep, rest int, stale map[int64]*proto.LogEntry, err error) {
	stale = map[int64]*proto.LogEntry{}
	var log []int64 // payload sizes of the log so far
	for r, rd := range im.Hist {
		st := histStep{keep: rd.Keep}
		if len(rd.App) == 0 {
			return nil, 0, nil, fmt.Errorf("round %d appends nothing", r+1)
		}
		for _, sz := range rd.App {
			o := int64(len(log))
			if o >= 20 {
				return nil, 0, nil, fmt.Errorf("round %d: log longer than 20 entries", r+1)
			}
			id := o
			for t := r; t < len(im.Hist); t++ {
				if o > im.Hist[t].Keep {
					id = staleID(r+1, o)
				}
			}
			e, err := mkEntry(o, id, sz)
			if err != nil {
				return nil, 0, nil, err
			}
			if id != o {
				stale[id] = e
			}
			st.app = append(st.app, e)
			log = append(log, sz)
		}
		if rd.Keep < -1 || rd.Keep >= int64(len(log)) {
			return nil, 0, nil, fmt.Errorf("round %d truncates to %d, the log has %d entries", r+1, rd.Keep, len(log))
		}
		log = log[:rd.Keep+1]
		steps = append(steps, st)
	}
	if len(log) > len(im.Sizes) {
		return nil, 0, nil, fmt.Errorf("the history leaves %d entries, sizes has %d", len(log), len(im.Sizes))
	}
	for i, sz := range log {
		if im.Sizes[i] != sz {
			return nil, 0, nil, fmt.Errorf("the history leaves an entry of size %d at offset %d, sizes says %d", sz, i, im.Sizes[i])
		}
	}
	return steps, len(log), stale, nil
}

var baseCache = map[string]*base{}
var shardSeq int64

func walDir(root string, shard int64) string {
	return filepath.Join(root, "default", fmt.Sprint("shard-", shard))
}

func openWal(root string, shard int64, seg int64, commit int64) (wal.Wal, error) {
	return wal.VerifNewWal("default", shard, &wal.FactoryOptions{BaseWalDir: root, SegmentSize: int32(seg), SyncData: true,
		Retention: time.Hour}, &commitProv{c: commit}, time2.SystemClock, time.Hour)
}

func scratchRoot() string {
	if st, err := os.Stat("/dev/shm"); err == nil && st.IsDir() {
		return "/dev/shm"
	}
	return ""
}

func getBase(im *image) (*base, error) {
	key := fmt.Sprint(im.Codec, "/", im.Seg, "/", im.Sizes, "/", im.Hist)
	if b, ok := baseCache[key]; ok {
		return b, nil
	}
	if len(baseCache) > 4000 {
		baseCache = map[string]*base{}
	}
	h := headerSize(im.Codec)
	recs, bases, err := layout(im.Sizes, h, im.Seg)
	if err != nil {
		return nil, err
	}
	b := &base{files: map[string][]byte{}, recs: recs, bases: bases}
	for i, sz := range im.Sizes {
		e, err := mkEntry(int64(i), int64(i), sz)
		if err != nil {
			return nil, err
		}
		raw, err := pb.Marshal(e)
		if err != nil || int64(len(raw)) != sz {
			return nil, fmt.Errorf("marshal: %v (len %d, want %d)", err, len(raw), sz)
		}
		b.orig = append(b.orig, e)
		b.raw = append(b.raw, raw)
	}
	steps, rest, stale, err := histPlan(im)
	if err != nil {
		return nil, err
	}
	b.stale = stale
	if im.Codec == "v1" && len(im.Hist) > 0 {
		return nil, fmt.Errorf("a history needs the running code, which writes format v2 only")
	}
	if im.Codec == "v1" {
		// the running code only writes v2; a v1 log is laid out with the v1 codec's own WriteRecord / WriteIndex
		v1 := codec.SupportedCodecs[1]
		tmp, err := os.MkdirTemp(scratchRoot(), "walrec-v1")
		if err != nil {
			return nil, err
		}
		defer os.RemoveAll(tmp)
		for s, bo := range bases {
			buf := make([]byte, im.Seg+1)
			var idx []byte
			for i, r := range recs {
				if r.seg != s {
					continue
				}
				v1.WriteRecord(buf, uint32(r.pos), 0, b.raw[i])
				idx = binary.BigEndian.AppendUint32(idx, uint32(r.pos))
			}
			b.files[fmt.Sprintf("%d%s", bo, v1.GetTxnExtension())] = buf
			p := filepath.Join(tmp, "idx")
			_ = os.Remove(p)
			if err := v1.WriteIndex(p, idx); err != nil {
				return nil, err
			}
			ib, err := os.ReadFile(p)
			if err != nil {
				return nil, err
			}
			b.files[fmt.Sprintf("%d%s", bo, v1.GetIdxExtension())] = ib
		}
		baseCache[key] = b
		return b, nil
	}
	root, err := os.MkdirTemp(scratchRoot(), "walrec-base")
	if err != nil {
		return nil, err
	}
	defer os.RemoveAll(root)
	w, err := openWal(root, 0, im.Seg, -1)
	if err != nil {
		return nil, err
	}
	// the history, through the real calls: append, TruncateLog, ..., then the entries that complete the final log
	for r, st := range steps {
		for _, e := range st.app {
			if err := w.AppendAsync(e); err != nil {
				return nil, fmt.Errorf("history round %d append %d: %w", r+1, e.Offset, err)
			}
		}
		last, err := w.TruncateLog(st.keep)
		if err != nil {
			return nil, fmt.Errorf("history round %d TruncateLog(%d): %w", r+1, st.keep, err)
		}
		if last != st.keep || w.LastOffset() != st.keep {
			return nil, fmt.Errorf("history round %d TruncateLog(%d) returned %d, LastOffset %d", r+1, st.keep, last, w.LastOffset())
		}
	}
	for _, e := range b.orig[rest:] {
		if err := w.AppendAsync(e); err != nil {
			return nil, fmt.Errorf("base append %d: %w", e.Offset, err)
		}
	}
	if err := w.Sync(context.Background()); err != nil {
		return nil, err
	}
	if err := w.Close(); err != nil {
		return nil, err
	}
	des, err := os.ReadDir(walDir(root, 0))
	if err != nil {
		return nil, err
	}
	for _, de := range des {
		c, err := os.ReadFile(filepath.Join(walDir(root, 0), de.Name()))
		if err != nil {
			return nil, err
		}
		b.files[de.Name()] = c
	}
	// the real layout must be the one the model computes
	for i, r := range recs {
		f, ok := b.files[fmt.Sprintf("%d.txnx", bases[r.seg])]
		if !ok {
			return nil, fmt.Errorf("real WAL has no segment %d (model: entry %d lives there)", bases[r.seg], i)
		}
		if int64(binary.BigEndian.Uint32(f[r.pos:])) != r.size || !bytes.Equal(f[r.pos+12:r.pos+12+r.size], b.raw[i]) {
			return nil, fmt.Errorf("real WAL layout differs from the model at entry %d", i)
		}
	}
	if len(b.files) != 2*len(bases) {
		return nil, fmt.Errorf("real WAL has %d files, model expects %d segments", len(b.files), len(bases))
	}
	baseCache[key] = b
	return b, nil
}

// ---------------------------------------------------------------------------------------------------
// concretization: abstract image -> bytes

func rawVal(s string) int64 {
	var v int64
	_, _ = fmt.Sscan(s, &v)
	return v
}

var sizeClass = map[string]int64{"s0": 0, "s1": 1, "max31": 0x7FFFFFFF, "ovf_max": 0xFFFFFFFF}

func exts(c string) (string, string) {
	if c == "v1" {
		return ".txn", ".idx"
	}
	return ".txnx", ".idxx"
}

func concretize(im *image, b *base, rng *rand.Rand) (map[string][]byte, error) {
	h := headerSize(im.Codec)
	te, ie := exts(im.Codec)
	files := map[string][]byte{}
	for k, v := range b.files {
		files[k] = append([]byte(nil), v...)
	}
	n := len(im.Sizes)
	if len(im.Rs) != n {
		return nil, fmt.Errorf("rs has %d elements, sizes %d", len(im.Rs), n)
	}
	if len(im.Tear) != n {
		im.Tear = make([]int64, n)
		for i := range im.Tear {
			im.Tear[i] = -1
		}
	}
	txn := func(i int) []byte { return files[fmt.Sprintf("%d%s", b.bases[b.recs[i].seg], te)] }
	for i, st := range im.Rs {
		r := b.recs[i]
		f := txn(i)
		total := h + r.size
		keep := total
		switch st {
		case "complete":
			continue
		case "absent":
			keep = 0
		case "tornh": // the size field reached the disk, the rest of the header only partly
			if h <= 4 {
				return nil, fmt.Errorf("tornh is not defined for codec %s", im.Codec)
			}
			keep = im.Tear[i]
			if keep < 4 || keep >= h {
				keep = 4 + rng.Int63n(h-4)
			}
		case "tornp": // the header and a proper prefix of the payload reached the disk
			keep = im.Tear[i]
			if keep < h || keep >= total {
				keep = h + rng.Int63n(r.size)
			}
		default:
			return nil, fmt.Errorf("unknown record state %q", st)
		}
		if int64(i) <= im.Synced {
			return nil, fmt.Errorf("image tears synced record %d", i)
		}
		im.Tear[i] = keep
		for p := r.pos + keep; p < r.pos+total; p++ {
			f[p] = 0
		}
	}
	// damage
	if d := im.Dmg; d.Field != "none" {
		i := int(d.Rec)
		if i < 0 || i >= n || im.Rs[i] != "complete" {
			return nil, fmt.Errorf("damage on record %d which is not complete in the image", i)
		}
		r := b.recs[i]
		f := txn(i)
		put32 := func(off int64, v uint32) { binary.BigEndian.PutUint32(f[r.pos+off:], v) }
		get32 := func(off int64) uint32 { return binary.BigEndian.Uint32(f[r.pos+off:]) }
		recorded := d.Val != "" && d.Val != "-"
		switch d.Field {
		case "size":
			var v int64
			cls := d.Cls
			if recorded {
				cls = "raw"
			}
			switch cls {
			case "exact":
				v = r.size
			case "plus1":
				v = r.size + 1
			case "ovf_lo": // largest value for which size+header does not wrap
				v = 0xFFFFFFFF - h
			case "ovf_at": // smallest value for which size+header wraps to 0
				v = 0x100000000 - h
			case "raw":
				v = rawVal(d.Val) & 0xFFFFFFFF
				// name the class of the raw value: it is what the specification reasons about
				switch {
				case v == 0:
					im.Dmg.Cls = "s0"
				case v == 1 && r.size != 1:
					im.Dmg.Cls = "s1"
				case v == r.size:
					im.Dmg.Cls = "exact"
				case v == r.size+1:
					im.Dmg.Cls = "plus1"
				case v == 0x100000000-h:
					im.Dmg.Cls = "ovf_at"
				case v > 0x100000000-h:
					im.Dmg.Cls = "ovf_max"
				case v > 0x7FFFFFFF:
					im.Dmg.Cls = "ovf_lo"
				default:
					im.Dmg.Cls = "max31"
				}
			default:
				var ok bool
				if v, ok = sizeClass[d.Cls]; !ok {
					return nil, fmt.Errorf("unknown size class %q", d.Cls)
				}
			}
			im.Dmg.Val = fmt.Sprint(v)
			put32(0, uint32(v))
		case "prevcrc", "crc":
			if im.Codec == "v1" {
				return nil, fmt.Errorf("codec v1 has no %s", d.Field)
			}
			off := int64(4)
			if d.Field == "crc" {
				off = 8
			}
			old := get32(off)
			var v uint32
			cls := d.Cls
			if recorded {
				cls = "raw"
			}
			switch cls {
			case "zero":
				v = 0
			case "raw":
				v = uint32(rawVal(d.Val))
				if d.Cls == "raw" {
					im.Dmg.Cls = "rand"
				}
			default:
				v = old ^ (1 + uint32(rng.Int63n(0xFFFFFFFF)))
			}
			if v == old {
				v = old ^ 0x10
			}
			im.Dmg.Val = fmt.Sprint(v)
			put32(off, v)
		case "payload":
			at := d.At
			if at < 0 || at >= r.size {
				at = rng.Int63n(r.size)
			}
			p := r.pos + h + at
			var v byte
			cls := d.Cls
			if recorded {
				cls = "raw"
			}
			switch cls {
			case "zero":
				v = 0
			case "raw":
				v = byte(rawVal(d.Val))
				if d.Cls == "raw" {
					im.Dmg.Cls = "rand"
				}
			default:
				v = f[p] ^ byte(1+rng.Intn(255))
			}
			if v == f[p] {
				v ^= 0x04
			}
			im.Dmg.At, im.Dmg.Val = at, fmt.Sprint(v)
			f[p] = v
		case "record": // the whole record is zeroed
			for p := r.pos; p < r.pos+h+r.size; p++ {
				f[p] = 0
			}
		case "splice": // the record is overwritten by another genuine record of the same size (misdirected write)
			j := int(d.At)
			if j < 0 || j >= n || j == i || b.recs[j].size != r.size {
				return nil, fmt.Errorf("splice: no donor %d for record %d", j, i)
			}
			src := b.files[fmt.Sprintf("%d%s", b.bases[b.recs[j].seg], te)]
			copy(f[r.pos:r.pos+h+r.size], src[b.recs[j].pos:b.recs[j].pos+h+r.size])
		default:
			return nil, fmt.Errorf("unknown damage field %q", d.Field)
		}
	}
	// files that never reached the disk
	nseg := len(b.bases)
	if im.Lost < 0 || int(im.Lost) >= nseg {
		return nil, fmt.Errorf("lost=%d with %d segments", im.Lost, nseg)
	}
	for s := nseg - int(im.Lost); s < nseg; s++ {
		if b.bases[s] <= im.Synced {
			return nil, fmt.Errorf("image loses segment %d which holds synced entries", b.bases[s])
		}
		delete(files, fmt.Sprintf("%d%s", b.bases[s], te))
		delete(files, fmt.Sprintf("%d%s", b.bases[s], ie))
	}
	live := nseg - int(im.Lost)
	// the index of the writable segment is only written by a clean close
	delete(files, fmt.Sprintf("%d%s", b.bases[live-1], ie))
	if len(im.Idx) != nseg-1 {
		return nil, fmt.Errorf("idx has %d elements, the WAL %d read-only segments", len(im.Idx), nseg-1)
	}
	for s := 0; s < live-1; s++ {
		name := fmt.Sprintf("%d%s", b.bases[s], ie)
		c := files[name]
		switch im.Idx[s] {
		case "ok":
		case "missing":
			delete(files, name)
		case "empty":
			files[name] = []byte{}
		case "short":
			files[name] = c[:2]
		case "trunc": // the last index entry did not reach the disk
			files[name] = c[:len(c)-4]
		case "zeros":
			files[name] = make([]byte, len(c))
		case "flip":
			p := rng.Intn(len(c))
			c[p] ^= byte(1 + rng.Intn(255))
		default:
			return nil, fmt.Errorf("unknown idx state %q", im.Idx[s])
		}
	}
	return files, nil
}

// ---------------------------------------------------------------------------------------------------
// observation

type phase struct {
	res, where  string
	first, last int64
	ents        []int64
	w           wal.Wal
}

// guarded runs f with panic recovery and a watchdog.
func guarded(f func() (string, string)) (res, where string) {
	type r struct{ res, where string }
	done := make(chan r, 1)
	go func() {
		defer func() {
			if p := recover(); p != nil {
				done <- r{"panic", fmt.Sprint(p)}
			}
		}()
		a, b := f()
		done <- r{a, b}
	}()
	tick := time.NewTicker(50 * time.Millisecond)
	defer tick.Stop()
	deadline := time.After(hangTimeout)
	for {
		select {
		case x := <-done:
			return x.res, x.where
		case <-deadline:
			return "hang", "no return within " + hangTimeout.String()
		case <-tick.C:
			var ms runtime.MemStats
			runtime.ReadMemStats(&ms)
			if ms.HeapAlloc > 3<<30 {
				return "hang", "unbounded allocation (heap > 3 GiB)"
			}
		}
	}
}

func (x *runner) identify(e *proto.LogEntry) int64 {
	if len(e.Value) < 2 {
		return -1
	}
	for id, o := range x.known {
		if sameEntry(o, e) {
			return id
		}
	}
	return -1
}

type runner struct {
	known map[int64]*proto.LogEntry
}

// openAndRead reopens the WAL in root and reads everything it claims to hold.
func (x *runner) openAndRead(root string, shard, seg, commit int64) *phase {
	ph := &phase{first: -1, last: -1, ents: []int64{}}
	ph.res, ph.where = guarded(func() (string, string) {
		w, err := openWal(root, shard, seg, commit)
		if err != nil {
			return "error", "open: " + err.Error()
		}
		ph.w = w
		ph.first, ph.last = w.FirstOffset(), w.LastOffset()
		if ph.first == -1 || ph.last < ph.first {
			if ph.last != -1 && ph.last >= 0 {
				return "inconsistent", fmt.Sprintf("FirstOffset %d, LastOffset %d", ph.first, ph.last)
			}
			return "ok", ""
		}
		r, err := w.NewReader(ph.first - 1)
		if err != nil {
			return "error", "NewReader: " + err.Error()
		}
		defer r.Close()
		next := ph.first
		var got []*proto.LogEntry
		for r.HasNext() {
			e, err := r.ReadNext()
			if err != nil {
				if noSuchOffset(err) {
					// the WAL claims [first, last] and denies holding an offset inside: a gap, nothing is reported
					// as damaged (WalRecovery.tla: outcome "hole"); which of the later offsets it still serves is
					// recorded for the reader of the report
					return "hole", fmt.Sprintf("read@%d: %v, although FirstOffset=%d LastOffset=%d; later offsets served: %v",
						next, err, ph.first, ph.last, servedAfter(w, next, ph.last))
				}
				return "error", fmt.Sprintf("read@%d: %v", next, err)
			}
			got = append(got, e)
			ph.ents = append(ph.ents, x.identify(e))
			next++
		}
		if next != ph.last+1 {
			return "inconsistent", fmt.Sprintf("forward read stopped at %d, LastOffset %d", next-1, ph.last)
		}
		rr, err := w.NewReverseReader()
		if err != nil {
			return "error", "NewReverseReader: " + err.Error()
		}
		defer rr.Close()
		i := len(got) - 1
		for rr.HasNext() {
			e, err := rr.ReadNext()
			if err != nil {
				return "error", fmt.Sprintf("reverse read: %v", err)
			}
			if i < 0 || !sameEntry(e, got[i]) {
				return "inconsistent", "reverse read disagrees with forward read"
			}
			i--
		}
		if i != -1 {
			return "inconsistent", "reverse read stopped early"
		}
		return "ok", ""
	})
	return ph
}

// noSuchOffset tells the two kinds of failed reads apart (WalRecovery.tla, "Answers of the reopened WAL"): the bare
// sentinels are the answers of the range checks (readOnlySegment.Read / readWriteSegment.Read: offset outside
// [base, last]; readOnlySegmentsGroup.Get: no segment file; NewReader: entry not found) = "there is no such offset",
// whereas damage met while opening a segment or validating a record is reported through a wrapped error
// (ErrDataCorrupted, or ErrOffsetOutOfBounds wrapped with the sizes that do not fit).
func noSuchOffset(err error) bool {
	return err == codec.ErrOffsetOutOfBounds || err == wal.ErrEntryNotFound //nolint:errorlint // identity is the point
}

// servedAfter lists the offsets in (from, last] that a fresh reader returns.
func servedAfter(w wal.Wal, from, last int64) []int64 {
	served := []int64{}
	for o := from + 1; o <= last && o <= from+64; o++ {
		r, err := w.NewReader(o - 1)
		if err != nil {
			continue
		}
		if e, err := r.ReadNext(); err == nil && e.Offset == o {
			served = append(served, o)
		}
		_ = r.Close()
	}
	return served
}

func writeFiles(dir string, files map[string][]byte) error {
	if err := os.MkdirAll(dir, 0o755); err != nil {
		return err
	}
	for name, c := range files {
		if err := os.WriteFile(filepath.Join(dir, name), c, 0o644); err != nil {
			return err
		}
	}
	return nil
}

// execute runs one image; hung reports that a goroutine is stuck inside the real code.
func execute(im *image, seed int64) (hung bool, err error) {
	b, err := getBase(im)
	if err != nil {
		return false, err
	}
	if im.RSeed != 0 {
		seed = im.RSeed
	}
	im.RSeed = seed
	rng := rand.New(rand.NewSource(seed))
	files, err := concretize(im, b, rng)
	if err != nil {
		return false, err
	}
	root, err := os.MkdirTemp(scratchRoot(), "walrec")
	if err != nil {
		return false, err
	}
	defer os.RemoveAll(root)
	shardSeq++
	shard := shardSeq
	if err := writeFiles(walDir(root, shard), files); err != nil {
		return false, err
	}
	x := &runner{known: map[int64]*proto.LogEntry{}}
	for i, e := range b.orig {
		x.known[int64(i)] = e
	}
	for id, e := range b.stale { // removed by the history: recognised, so that a resurrected entry is named in the observation
		x.known[id] = e
	}
	o := &im.Obs
	*o = outcome{Ents: []int64{}, PEnts: []int64{}, PRes: "none", PFirst: -1, PLast: -1}
	ph := x.openAndRead(root, shard, im.Seg, im.Commit)
	o.Res, o.Where, o.First, o.Last, o.Ents = ph.res, ph.where, ph.first, ph.last, ph.ents
	if ph.res == "hang" {
		return true, nil
	}
	if ph.res != "ok" || len(im.Post) == 0 {
		if ph.w != nil && ph.res != "panic" {
			if r, wh := guarded(func() (string, string) { return "ok", fmt.Sprint(ph.w.Close()) }); r == "hang" {
				o.PWhere = "close: " + wh
				return true, nil
			}
		}
		return false, nil
	}
	// life goes on: new entries are appended after the recovered log, then a clean close and a reopen
	var cerr error
	o.PRes, o.PWhere = guarded(func() (string, string) {
		for j, sz := range im.Post {
			id := int64(100 + j)
			e, err := mkEntry(ph.last+1+int64(j), id, sz)
			if err != nil {
				cerr = err
				return "error", "harness"
			}
			x.known[id] = e
			if err := ph.w.AppendAsync(e); err != nil {
				return "error", fmt.Sprintf("append@%d: %v", e.Offset, err)
			}
		}
		if err := ph.w.Sync(context.Background()); err != nil {
			return "error", "sync: " + err.Error()
		}
		if err := ph.w.Close(); err != nil {
			return "error", "close: " + err.Error()
		}
		return "ok", ""
	})
	if cerr != nil {
		return false, cerr
	}
	if o.PRes == "hang" {
		return true, nil
	}
	if o.PRes != "ok" {
		return false, nil
	}
	shardSeq++
	// the WAL directory is named after the shard: keep it
	p2 := x.openAndRead(root, shard, im.Seg, im.Commit)
	o.PRes, o.PWhere, o.PFirst, o.PLast, o.PEnts = p2.res, p2.where, p2.first, p2.last, p2.ents
	if p2.res == "hang" {
		return true, nil
	}
	if p2.w != nil && p2.res != "panic" {
		if r, _ := guarded(func() (string, string) { return "ok", fmt.Sprint(p2.w.Close()) }); r == "hang" {
			return true, nil
		}
	}
	return false, nil
}

// ---------------------------------------------------------------------------------------------------

func cmdRun(args []string) int {
	fs := flag.NewFlagSet("run", flag.ExitOnError)
	in := fs.String("in", "", "ndjson of images")
	out := fs.String("out", "", "ndjson of observations")
	seed := fs.Int64("seed", 1, "seed of the concretization")
	skip := fs.Int("skip", 0, "images to skip (already processed)")
	hang := fs.Duration("hang", hangTimeout, "watchdog")
	_ = fs.Parse(args)
	hangTimeout = *hang
	f, err := os.Open(*in)
	if err != nil {
		fmt.Fprintln(os.Stderr, err)
		return 2
	}
	defer f.Close()
	flags := os.O_CREATE | os.O_WRONLY | os.O_APPEND
	if *skip == 0 {
		flags = os.O_CREATE | os.O_WRONLY | os.O_TRUNC
	}
	of, err := os.OpenFile(*out, flags, 0o644)
	if err != nil {
		fmt.Fprintln(os.Stderr, err)
		return 2
	}
	defer of.Close()
	w := bufio.NewWriter(of)
	defer w.Flush()
	enc := json.NewEncoder(w)
	sc := bufio.NewScanner(f)
	sc.Buffer(make([]byte, 1<<20), 1<<26)
	n := 0
	for sc.Scan() {
		line := sc.Bytes()
		if len(bytes.TrimSpace(line)) == 0 {
			continue
		}
		n++
		if n <= *skip {
			continue
		}
		var im image
		im.Dmg.At = -1
		if err := json.Unmarshal(line, &im); err != nil {
			fmt.Fprintln(os.Stderr, "bad image line:", err)
			return 2
		}
		normalize(&im)
		hung, err := execute(&im, *seed*1_000_003+int64(n))
		if err != nil {
			fmt.Fprintf(os.Stderr, "harness failure on image %d: %v\n", n, err)
			return 2
		}
		if err := enc.Encode(&im); err != nil {
			fmt.Fprintln(os.Stderr, err)
			return 2
		}
		if hung {
			// a goroutine is stuck (possibly allocating) inside the real code: leave, the caller resumes
			w.Flush()
			of.Close()
			os.Exit(3)
		}
	}
	return 0
}

// normalize makes sure that every field is present on every output line (TLC needs all record fields).
func normalize(im *image) {
	if im.Sizes == nil {
		im.Sizes = []int64{}
	}
	if im.Rs == nil {
		im.Rs = []string{}
	}
	if im.Idx == nil {
		im.Idx = []string{}
	}
	if im.Post == nil {
		im.Post = []int64{}
	}
	if im.Tear == nil {
		im.Tear = []int64{}
	}
	if im.Hist == nil {
		im.Hist = []round{}
	}
	for r := range im.Hist {
		if im.Hist[r].App == nil {
			im.Hist[r].App = []int64{}
		}
	}
	if im.Dmg.Field == "" {
		im.Dmg = damage{Rec: -1, Field: "none", Cls: "none", At: -1}
	}
	if im.Dmg.Val == "" {
		im.Dmg.Val = "-"
	}
	for _, o := range []*outcome{&im.Exp, &im.Obs} {
		if o.Ents == nil {
			o.Ents = []int64{}
		}
		if o.PEnts == nil {
			o.PEnts = []int64{}
		}
		if o.Res == "" {
			o.Res = "na"
		}
		if o.PRes == "" {
			o.PRes = "none"
		}
	}
}

// ---------------------------------------------------------------------------------------------------
// gen: random images beyond the enumerated domain

// reachable avoids the few marshalled sizes that no value length produces (the length prefix of the value
// grows from one to two bytes at 128; which size is skipped depends on the offset of the entry)
func reachable(sz int64) int64 {
	if sz >= 136 && sz <= 150 {
		return 135
	}
	return sz
}

func cmdGen(args []string) int {
	fs := flag.NewFlagSet("gen", flag.ExitOnError)
	seed := fs.Int64("seed", 1, "")
	n := fs.Int("n", 1000, "images")
	cdc := fs.String("codec", "v2", "v2 | v1")
	out := fs.String("out", "images.ndjson", "")
	maxRec := fs.Int("maxrec", 9, "max records")
	_ = fs.Parse(args)
	rng := rand.New(rand.NewSource(*seed))
	of, err := os.Create(*out)
	if err != nil {
		fmt.Fprintln(os.Stderr, err)
		return 2
	}
	defer of.Close()
	w := bufio.NewWriter(of)
	defer w.Flush()
	enc := json.NewEncoder(w)
	h := headerSize(*cdc)
	segs := []int64{128, 160, 256, 512}
	for k := 0; k < *n; k++ {
		im := image{Codec: *cdc, Seg: segs[rng.Intn(len(segs))]}
		maxPayload := im.Seg - h
		randSize := func() int64 {
			var sz int64
			switch rng.Intn(4) {
			case 0:
				sz = 24 + rng.Int63n(20)
			case 1:
				sz = im.Seg/2 - h - rng.Int63n(3) // two records fill a segment (almost) exactly
			default:
				sz = 24 + rng.Int63n(maxPayload-23)
			}
			if sz > maxPayload {
				sz = maxPayload
			}
			return reachable(sz)
		}
		nrec := 1 + rng.Intn(*maxRec)
		lastKeep := int64(-1)
		if *cdc == "v2" && rng.Intn(3) == 0 {
			// a history: rounds of append + TruncateLog, then the appends that complete the log.  Sizes come from a
			// small palette and a replacement often has the size of the entry it replaces (a new leader overwrites a
			// divergent tail with its own entries), so that new records end where removed ones ended.
			palette := []int64{randSize(), randSize(), 24 + rng.Int63n(20)}
			pick := func() int64 {
				if rng.Intn(4) == 0 {
					return randSize()
				}
				return palette[rng.Intn(len(palette))]
			}
			var log, removed []int64 // removed[o] = size of the entry last removed at offset o (0 = none)
			for r, nr := 0, 1+rng.Intn(3); r < nr; r++ {
				rd := round{}
				for j, na := 0, 1+rng.Intn(5); j < na && len(log) < 12; j++ {
					sz := pick()
					if o := len(log); o < len(removed) && removed[o] > 0 && rng.Intn(2) == 0 {
						sz = removed[o]
					}
					rd.App = append(rd.App, sz)
					log = append(log, sz)
				}
				if len(rd.App) == 0 {
					break
				}
				rd.Keep = int64(rng.Intn(len(log)+1)) - 1
				if rng.Intn(3) == 0 && len(log) >= 3 { // remove at least two
					rd.Keep = int64(rng.Intn(len(log) - 2))
				}
				if rd.Keep > 7 {
					rd.Keep = 7
				}
				for o := int(rd.Keep) + 1; o < len(log); o++ {
					for len(removed) <= o {
						removed = append(removed, 0)
					}
					removed[o] = log[o]
				}
				log = log[:rd.Keep+1]
				lastKeep = rd.Keep
				im.Hist = append(im.Hist, rd)
			}
			im.Sizes = append(im.Sizes, log...)
			for na := rng.Intn(4); na > 0 || len(im.Sizes) == 0; na-- {
				sz := pick()
				if o := len(im.Sizes); o < len(removed) && removed[o] > 0 && rng.Intn(3) > 0 {
					sz = removed[o]
				}
				im.Sizes = append(im.Sizes, sz)
			}
			nrec = len(im.Sizes)
		} else {
			for i := 0; i < nrec; i++ {
				im.Sizes = append(im.Sizes, randSize())
			}
		}
		recs, bases, err := layout(im.Sizes, h, im.Seg)
		if err != nil {
			fmt.Fprintln(os.Stderr, err)
			return 2
		}
		nseg := len(bases)
		// the durable frontier: everything in a closed segment, plus the synced part of the writable one
		lo := bases[nseg-1] - 1
		im.Synced = lo + rng.Int63n(int64(nrec)-lo)
		if rng.Intn(5) == 0 {
			im.Synced = int64(nrec) - 1
		}
		if im.Synced < lastKeep { // TruncateLog flushes what it keeps
			im.Synced = lastKeep
		}
		im.Commit = -1 + rng.Int63n(im.Synced+2)
		states := []string{"complete", "absent", "tornh", "tornp"}
		if *cdc == "v1" {
			states = []string{"complete", "absent"}
		}
		for i := 0; i < nrec; i++ {
			st := "complete"
			if int64(i) > im.Synced && rng.Intn(3) > 0 {
				st = states[rng.Intn(len(states))]
			}
			im.Rs = append(im.Rs, st)
		}
		idxStates := []string{"ok", "ok", "ok", "missing", "empty", "short", "trunc", "zeros", "flip"}
		if *cdc == "v1" {
			idxStates = []string{"ok", "ok", "missing"}
		}
		for s := 0; s < nseg-1; s++ {
			im.Idx = append(im.Idx, idxStates[rng.Intn(len(idxStates))])
		}
		// the newest segment file may never have reached the disk when nothing in it was synced
		if nseg > 1 && im.Synced == lo && rng.Intn(4) == 0 {
			im.Lost = 1
		}
		im.Dmg = damage{Rec: -1, Field: "none", Cls: "none", At: -1}
		if rng.Intn(3) > 0 {
			// damage at an arbitrary byte of the used part of the log
			var cands []int
			for i := range recs {
				if im.Rs[i] == "complete" && recs[i].seg < nseg-int(im.Lost) {
					cands = append(cands, i)
				}
			}
			if len(cands) > 0 {
				i := cands[rng.Intn(len(cands))]
				at := rng.Int63n(h + recs[i].size)
				d := damage{Rec: int64(i), Cls: "raw", At: -1}
				switch {
				case at < 4:
					d.Field = "size"
					// one byte of the size field is overwritten
					v := uint32(recs[i].size)
					shift := uint(8 * (3 - at))
					nb := uint32(rng.Intn(256))
					if rng.Intn(3) == 0 {
						nb = 0xff
					}
					v = v&^(0xff<<shift) | nb<<shift
					if int64(v) == recs[i].size {
						v ^= 1 << shift
					}
					if rng.Intn(4) == 0 {
						v = []uint32{0, 1, 0x7FFFFFFF, 0xFFFFFFFF - uint32(h), uint32(0x100000000 - h), 0xFFFFFFFF, uint32(recs[i].size) + 1, uint32(recs[i].size) - 1}[rng.Intn(8)]
					}
					d.Val = fmt.Sprint(v)
				case at < 8 && *cdc == "v2":
					d.Field, d.Val = "prevcrc", fmt.Sprint(rng.Int63n(1<<32))
				case at < 12 && *cdc == "v2":
					d.Field, d.Val = "crc", fmt.Sprint(rng.Int63n(1<<32))
				default:
					d.Field, d.At, d.Val = "payload", at-h, fmt.Sprint(rng.Intn(256))
					if rng.Intn(3) == 0 {
						d.Val = "0"
					}
				}
				if *cdc == "v1" && d.Field != "size" {
					d = damage{Rec: -1, Field: "none", Cls: "none", At: -1}
				}
				if *cdc == "v2" && rng.Intn(12) == 0 {
					// a zeroed record / a record overwritten by another genuine record of the same size
					d = damage{Rec: int64(i), Field: "record", Cls: "zero", At: -1}
					if rng.Intn(2) == 0 {
						for _, j := range rng.Perm(nrec) {
							if j != i && recs[j].size == recs[i].size {
								d = damage{Rec: int64(i), Field: "splice", Cls: "donor", At: int64(j)}
								break
							}
						}
					}
				}
				im.Dmg = d
			}
		}
		if rng.Intn(2) == 0 {
			np := 1 + rng.Intn(2)
			for j := 0; j < np; j++ {
				// often the size of a record that may have been discarded: the new record then ends exactly
				// where an old one ended
				sz := im.Sizes[rng.Intn(nrec)]
				if rng.Intn(3) == 0 {
					sz = 24 + rng.Int63n(60)
				}
				if sz > im.Seg-12 { // a new segment is always written in format v2
					sz = reachable(im.Seg - 12)
				}
				im.Post = append(im.Post, sz)
			}
		}
		normalize(&im)
		if err := enc.Encode(&im); err != nil {
			fmt.Fprintln(os.Stderr, err)
			return 2
		}
	}
	return 0
}

func main() {
	slog.SetDefault(slog.New(slog.NewTextHandler(io.Discard, nil)))
	if len(os.Args) < 2 {
		fmt.Fprintln(os.Stderr, "usage: walrecover run|gen ...")
		os.Exit(2)
	}
	switch os.Args[1] {
	case "run":
		os.Exit(cmdRun(os.Args[2:]))
	case "gen":
		os.Exit(cmdGen(os.Args[2:]))
	}
	os.Exit(2)
}

var _ = sort.Ints
var _ = strings.Join
