// placement binds spec/Placement.tla to the real ensemble selection / rebalancing code of the coordinator.
//
//	placement run -in cfgs.ndjson -out trace.ndjson -seed S -reps K [-exact]
//	    every input line is a configuration exported by TLC (PlacementMC "CFG" lines). Each is executed
//	    K times on the real code (server order, label names, ServerIdx and Go's map order vary) and one
//	    trace line per execution is written: the configuration as executed plus the observed outcome.
//	placement drive -seed S -n N -out trace.ndjson
//	    random, larger configurations executed the same way.
//
// The trace is judged by TLC (PlacementTrace.tla), not here.
//
// Operations:
//
//	select : ensemble.NewSelector().Select with the context coordinator.selectNewEnsemble builds
//	swap   : balancer.swapShard (through VerifSwapShard) for one member of one shard, then the
//	         shardController's replaceInList applied to the shard's ensemble
//	round  : one balancer.rebalanceEnsemble round (VerifRebalanceOnce); the proposed actions are applied
//	         in emission order with replaceInList, as the coordinator's action worker does
package main

import (
	"bufio"
	"context"
	"encoding/json"
	"flag"
	"fmt"
	"io"
	"log/slog"
	"math/rand"
	"os"
	"time"

	"github.com/oxia-db/oxia/coordinator/balancer"
	"github.com/oxia-db/oxia/coordinator/controllers"
	"github.com/oxia-db/oxia/coordinator/metadata"
	"github.com/oxia-db/oxia/coordinator/model"
	"github.com/oxia-db/oxia/coordinator/policies"
	"github.com/oxia-db/oxia/coordinator/resources"
	"github.com/oxia-db/oxia/coordinator/selectors/ensemble"
	"github.com/oxia-db/oxia/coordinator/selectors/single"
	"github.com/oxia-db/oxia/coordinator/utils"
)

type rule struct {
	Labels []int `json:"labels"`
	Strict bool  `json:"strict"`
}

type action struct {
	Shard int   `json:"shard"` // 1-based index into shards
	From  int   `json:"from"`
	To    int   `json:"to"`
	After []int `json:"after"`
}

// one configuration + (after execution) the observed outcome; every field is always emitted
type line struct {
	Kind    string  `json:"kind"`
	Lab     [][]int `json:"lab"`
	Pol     []rule  `json:"pol"`
	Claim   bool    `json:"claim"`
	Rf      int     `json:"rf"`
	Load    []int   `json:"load"`
	UseLoad bool    `json:"useLoad"`
	Ens     []int   `json:"ens"`
	From    int     `json:"from"`
	Shards  [][]int `json:"shards"`
	// observed
	Conf  bool     `json:"conf"` // small enough for the conformance (model outcome set) comparison
	Res   string   `json:"res"`  // ok | refused | panic | hang
	Out   []int    `json:"out"`  // select: the ensemble; swap: <<to>>
	After []int    `json:"after"`
	Acts  []action `json:"acts"`
	Err   string   `json:"err"`
}

var hangTimeout = 10 * time.Second
var hangs = 0

const nsName = "ns"
const otherNs = "other"

var labelNames = []string{"zone", "rack", "host", "row"}

// world = the concrete objects of one execution
type world struct {
	n       int
	names   []string // index 1..n live, then removed
	servers map[int]model.Server
	ids     map[string]int
	config  model.ClusterConfig
	cfgRes  resources.ClusterConfigResource
	cancel  context.CancelFunc
}

func (w *world) server(id int) model.Server {
	if s, ok := w.servers[id]; ok {
		return s
	}
	// removed ("history") server
	name := fmt.Sprintf("x%d", id-w.n)
	var s model.Server
	if len(w.names) > 0 && w.names[0] == "named" {
		nm := name
		s = model.Server{Name: &nm, Public: name + ":6648", Internal: name + ":6649"}
	} else {
		s = model.Server{Public: name + ":6648", Internal: name}
	}
	w.servers[id] = s
	w.ids[s.GetIdentifier()] = id
	return s
}

func (w *world) idOf(s model.Server) int {
	if id, ok := w.ids[s.GetIdentifier()]; ok {
		return id
	}
	return -1
}

func (w *world) idOfName(name string) int {
	if id, ok := w.ids[name]; ok {
		return id
	}
	return -1
}

func (w *world) ensemble(e []int) []model.Server {
	res := make([]model.Server, 0, len(e))
	for _, id := range e {
		res = append(res, w.server(id))
	}
	return res
}

func (w *world) idsOf(e []model.Server) []int {
	res := make([]int, 0, len(e))
	for _, s := range e {
		res = append(res, w.idOf(s))
	}
	return res
}

func newWorld(l *line, rng *rand.Rand) *world {
	n := len(l.Lab)
	w := &world{n: n, servers: map[int]model.Server{}, ids: map[string]int{}}
	named := rng.Intn(2) == 0
	if named {
		w.names = []string{"named"}
	} else {
		w.names = []string{"anon"}
	}
	// label id -> name, shuffled
	lperm := rng.Perm(len(labelNames))
	lname := func(l int) string { return labelNames[lperm[(l-1)%len(labelNames)]] }
	cc := model.ClusterConfig{ServerMetadata: map[string]model.ServerMetadata{}}
	for i := 1; i <= n; i++ {
		name := fmt.Sprintf("s%d", i)
		var s model.Server
		if named {
			nm := name
			s = model.Server{Name: &nm, Public: name + ":6648", Internal: name + ":6649"}
		} else {
			s = model.Server{Public: name + ":6648", Internal: name}
		}
		w.servers[i] = s
		w.ids[s.GetIdentifier()] = i
		cc.Servers = append(cc.Servers, s)
		labels := map[string]string{}
		for li, v := range l.Lab[i-1] {
			if v != 0 {
				labels[lname(li+1)] = fmt.Sprintf("v%d", v)
			}
		}
		if len(labels) > 0 || rng.Intn(2) == 0 {
			cc.ServerMetadata[s.GetIdentifier()] = model.ServerMetadata{Labels: labels}
		}
	}
	var pol *policies.Policies
	if len(l.Pol) > 0 || rng.Intn(2) == 0 {
		pol = &policies.Policies{}
		for _, r := range l.Pol {
			aa := policies.AntiAffinity{Mode: policies.Relaxed}
			if r.Strict {
				aa.Mode = policies.Strict
			}
			for _, lb := range r.Labels {
				aa.Labels = append(aa.Labels, lname(lb))
			}
			pol.AntiAffinities = append(pol.AntiAffinities, aa)
		}
	}
	cc.Namespaces = []model.NamespaceConfig{
		{Name: nsName, InitialShardCount: 1, ReplicationFactor: uint32(l.Rf), Policies: pol},
		{Name: otherNs, InitialShardCount: 1, ReplicationFactor: 1},
	}
	w.config = cc
	ctx, cancel := context.WithCancel(context.Background())
	w.cancel = cancel
	w.cfgRes = resources.NewClusterConfigResource(ctx, func() (model.ClusterConfig, error) { return cc, nil }, nil, nil)
	return w
}

// status with the extra load (single-replica shards of namespace "other") and the given shards of "ns"
func (w *world) status(l *line, shards [][]int, rng *rand.Rand) *model.ClusterStatus {
	st := model.NewClusterStatus()
	st.ServerIdx = uint32(rng.Intn(7))
	other := model.NamespaceStatus{ReplicationFactor: 1, Shards: map[int64]model.ShardMetadata{}}
	id := int64(1000)
	for i, k := range l.Load {
		for j := 0; j < k; j++ {
			other.Shards[id] = model.ShardMetadata{Status: model.ShardStatusSteadyState, Ensemble: w.ensemble([]int{i + 1}),
				Int32HashRange: model.Int32HashRange{Min: 0, Max: 0}}
			id++
		}
	}
	if len(other.Shards) > 0 {
		st.Namespaces[otherNs] = other
	}
	if len(shards) > 0 {
		ns := model.NamespaceStatus{ReplicationFactor: uint32(l.Rf), Shards: map[int64]model.ShardMetadata{}}
		for i, e := range shards {
			ens := w.ensemble(e)
			var leader *model.Server
			if len(ens) > 0 {
				leader = &ens[0]
			}
			ns.Shards[int64(i)] = model.ShardMetadata{Status: model.ShardStatusSteadyState, Term: 1, Leader: leader, Ensemble: ens}
		}
		st.Namespaces[nsName] = ns
	}
	st.ShardIdGenerator = 2000
	return st
}

func statusResource(st *model.ClusterStatus) resources.StatusResource {
	sr := resources.NewStatusResource(metadata.NewMetadataProviderMemory())
	sr.Update(st)
	return sr
}

// guarded runs f with a watchdog and panic capture. Returns "", "panic" or "hang".
func guarded(f func()) (string, string) {
	type res struct{ kind, msg string }
	ch := make(chan res, 1)
	go func() {
		defer func() {
			if r := recover(); r != nil {
				ch <- res{"panic", fmt.Sprint(r)}
			}
		}()
		f()
		ch <- res{"", ""}
	}()
	select {
	case r := <-ch:
		return r.kind, r.msg
	case <-time.After(hangTimeout):
		hangs++
		return "hang", "no return within the watchdog period"
	}
}

func execSelect(l *line, rng *rand.Rand) {
	w := newWorld(l, rng)
	defer w.cancel()
	st := w.status(l, nil, rng)
	nodes, md := w.cfgRes.NodesWithMetadata()
	nsc, _ := w.cfgRes.NamespaceConfig(nsName)
	ectx := &ensemble.Context{
		Candidates:         nodes,
		CandidatesMetadata: md,
		Policies:           nsc.Policies,
		Status:             st,
		Replicas:           l.Rf,
	}
	if l.UseLoad {
		ectx.LoadRatioSupplier = func() *model.Ratio {
			grouped, history := utils.GroupingShardsNodeByStatus(nodes, st)
			return single.DefaultShardsRank(&model.RatioParams{NodeShardsInfos: grouped, HistoryNodes: history})
		}
	}
	var esm []string
	var err error
	kind, msg := guarded(func() { esm, err = ensemble.NewSelector().Select(ectx) })
	switch {
	case kind != "":
		l.Res, l.Err = kind, msg
	case err != nil:
		l.Res, l.Err = "refused", err.Error()
	default:
		l.Res = "ok"
		for _, name := range esm {
			l.Out = append(l.Out, w.idOfName(name))
		}
	}
}

func execSwap(l *line, rng *rand.Rand) {
	w := newWorld(l, rng)
	defer w.cancel()
	st := w.status(l, [][]int{l.Ens}, rng)
	sr := statusResource(st)
	from := w.server(l.From)
	var act *balancer.SwapNodeAction
	var err error
	kind, msg := guarded(func() { act, _, err = balancer.VerifSwapShard(sr, w.cfgRes, nsName, 0, from.GetIdentifier()) })
	switch {
	case kind != "":
		l.Res, l.Err = kind, msg
	case err != nil:
		l.Res, l.Err = "refused", err.Error()
	case act == nil:
		l.Res = "refused"
	default:
		l.Res = "ok"
		l.Out = []int{w.idOf(act.To)}
		if w.idOf(act.From) != l.From || act.Shard != 0 {
			l.Err = fmt.Sprintf("action names shard %d from %s", act.Shard, act.From.GetIdentifier())
			l.Out = []int{-1}
		}
		l.After = w.idsOf(controllers.VerifReplaceInList(w.ensemble(l.Ens), act.From, act.To))
	}
}

func execRound(l *line, rng *rand.Rand) {
	w := newWorld(l, rng)
	defer w.cancel()
	st := w.status(l, l.Shards, rng)
	sr := statusResource(st)
	var acts []*balancer.SwapNodeAction
	kind, msg := guarded(func() { acts = balancer.VerifRebalanceOnce(sr, w.cfgRes) })
	if kind != "" {
		l.Res, l.Err = kind, msg
		return
	}
	l.Res = "ok"
	cur := make([][]model.Server, len(l.Shards))
	for i, e := range l.Shards {
		cur[i] = w.ensemble(e)
	}
	for _, a := range acts {
		i := int(a.Shard)
		if i < 0 || i >= len(cur) {
			l.Acts = append(l.Acts, action{Shard: -1, From: w.idOf(a.From), To: w.idOf(a.To), After: []int{}})
			continue
		}
		cur[i] = controllers.VerifReplaceInList(cur[i], a.From, a.To)
		l.Acts = append(l.Acts, action{Shard: i + 1, From: w.idOf(a.From), To: w.idOf(a.To), After: w.idsOf(cur[i])})
	}
}

func execute(l *line, rng *rand.Rand) {
	l.Res, l.Err = "", ""
	l.Out, l.After, l.Acts = []int{}, []int{}, []action{}
	switch l.Kind {
	case "select":
		execSelect(l, rng)
	case "swap":
		execSwap(l, rng)
	case "round":
		if hangs >= 1 {
			l.Res, l.Err = "hang", "skipped: earlier rounds did not return"
			return
		}
		execRound(l, rng)
	default:
		l.Res = "refused"
	}
}

func norm(l *line) {
	if l.Lab == nil {
		l.Lab = [][]int{}
	}
	if l.Pol == nil {
		l.Pol = []rule{}
	}
	if l.Load == nil {
		l.Load = []int{}
	}
	if l.Ens == nil {
		l.Ens = []int{}
	}
	if l.Shards == nil {
		l.Shards = [][]int{}
	}
	if l.Out == nil {
		l.Out = []int{}
	}
	if l.After == nil {
		l.After = []int{}
	}
	if l.Acts == nil {
		l.Acts = []action{}
	}
	for len(l.Load) < len(l.Lab) {
		l.Load = append(l.Load, 0)
	}
}

// permute the live servers: position i of the result is old server perm[i]+1
func permuted(l *line, rng *rand.Rand) *line {
	n := len(l.Lab)
	perm := rng.Perm(n)
	newID := make(map[int]int)
	for i, o := range perm {
		newID[o+1] = i + 1
	}
	m := func(id int) int {
		if id >= 1 && id <= n {
			return newID[id]
		}
		return id
	}
	r := *l
	r.Lab = make([][]int, n)
	r.Load = make([]int, n)
	for i, o := range perm {
		r.Lab[i] = l.Lab[o]
		r.Load[i] = l.Load[o]
	}
	r.Ens = make([]int, len(l.Ens))
	for i, id := range l.Ens {
		r.Ens[i] = m(id)
	}
	r.From = m(l.From)
	r.Shards = make([][]int, len(l.Shards))
	for i, e := range l.Shards {
		r.Shards[i] = make([]int, len(e))
		for j, id := range e {
			r.Shards[i][j] = m(id)
		}
		rng.Shuffle(len(r.Shards[i]), func(a, b int) { r.Shards[i][a], r.Shards[i][b] = r.Shards[i][b], r.Shards[i][a] })
	}
	rng.Shuffle(len(r.Ens), func(a, b int) { r.Ens[a], r.Ens[b] = r.Ens[b], r.Ens[a] })
	return &r
}

func claimed(pol []rule) bool {
	for _, r := range pol {
		if len(r.Labels) != 1 {
			return false
		}
	}
	return true
}

func randomLine(rng *rand.Rand) *line {
	n := 1 + rng.Intn(12)
	nl := 1 + rng.Intn(3)
	nv := 1 + rng.Intn(4)
	l := &line{}
	for i := 0; i < n; i++ {
		t := make([]int, nl)
		for j := range t {
			if rng.Intn(5) != 0 {
				t[j] = 1 + rng.Intn(nv)
			}
		}
		l.Lab = append(l.Lab, t)
		l.Load = append(l.Load, rng.Intn(4))
	}
	for k := rng.Intn(4); k > 0; k-- {
		r := rule{Strict: rng.Intn(4) != 0, Labels: []int{1 + rng.Intn(nl)}}
		if rng.Intn(7) == 0 {
			r.Labels = append(r.Labels, 1+rng.Intn(nl))
		}
		l.Pol = append(l.Pol, r)
	}
	l.Claim = claimed(l.Pol)
	l.Rf = 1 + rng.Intn(5)
	l.UseLoad = true
	removed := 3
	pickEns := func() []int {
		p := rng.Perm(n + removed)
		e := []int{}
		for _, x := range p {
			if len(e) == l.Rf {
				break
			}
			// removed servers are less likely
			if x >= n && rng.Intn(3) != 0 {
				continue
			}
			e = append(e, x+1)
		}
		for _, x := range p {
			if len(e) == l.Rf {
				break
			}
			dup := false
			for _, y := range e {
				dup = dup || y == x+1
			}
			if !dup {
				e = append(e, x+1)
			}
		}
		return e
	}
	switch rng.Intn(3) {
	case 0:
		l.Kind = "select"
		l.UseLoad = rng.Intn(5) != 0
		if !l.UseLoad {
			for i := range l.Load {
				l.Load[i] = 0
			}
		}
	case 1:
		l.Kind = "swap"
		l.Ens = pickEns()
		if len(l.Ens) < l.Rf {
			l.Rf = len(l.Ens)
		}
		l.From = l.Ens[rng.Intn(len(l.Ens))]
	default:
		l.Kind = "round"
		if l.Rf > n+removed {
			l.Rf = n + removed
		}
		for i := range l.Load {
			l.Load[i] = 0
		}
		for k := 1 + rng.Intn(5); k > 0; k-- {
			l.Shards = append(l.Shards, pickEns())
		}
	}
	l.Conf = false
	norm(l)
	return l
}

func main() {
	slog.SetDefault(slog.New(slog.NewTextHandler(io.Discard, nil)))
	if len(os.Args) < 2 {
		fmt.Fprintln(os.Stderr, "usage: placement run|drive ...")
		os.Exit(2)
	}
	fs := flag.NewFlagSet(os.Args[1], flag.ExitOnError)
	in := fs.String("in", "", "configurations (ndjson)")
	out := fs.String("out", "", "trace (ndjson)")
	seed := fs.Int64("seed", 1, "seed")
	reps := fs.Int("reps", 2, "executions per configuration")
	num := fs.Int("n", 1000, "random configurations")
	exact := fs.Bool("exact", false, "run: never permute the servers of a configuration")
	_ = fs.Parse(os.Args[2:])
	rng := rand.New(rand.NewSource(*seed))
	of, err := os.Create(*out)
	if err != nil {
		fmt.Fprintln(os.Stderr, err)
		os.Exit(2)
	}
	bw := bufio.NewWriterSize(of, 1<<20)
	enc := json.NewEncoder(bw)
	stats := map[string]int{}
	emit := func(l *line) {
		stats[l.Kind+"/"+l.Res]++
		if err := enc.Encode(l); err != nil {
			fmt.Fprintln(os.Stderr, err)
			os.Exit(2)
		}
	}
	switch os.Args[1] {
	case "run":
		f, err := os.Open(*in)
		if err != nil {
			fmt.Fprintln(os.Stderr, err)
			os.Exit(2)
		}
		sc := bufio.NewScanner(f)
		sc.Buffer(make([]byte, 1<<20), 1<<24)
		for sc.Scan() {
			var l line
			if err := json.Unmarshal(sc.Bytes(), &l); err != nil {
				fmt.Fprintln(os.Stderr, "bad input line:", err)
				os.Exit(2)
			}
			norm(&l)
			l.Claim = claimed(l.Pol)
			l.Conf = len(l.Lab) <= 6
			for r := 0; r < *reps; r++ {
				x := &l
				if r > 0 && !*exact {
					x = permuted(&l, rng)
				} else {
					c := l
					x = &c
				}
				execute(x, rng)
				norm(x)
				emit(x)
			}
		}
	case "drive":
		for i := 0; i < *num; i++ {
			l := randomLine(rng)
			execute(l, rng)
			norm(l)
			emit(l)
		}
	default:
		fmt.Fprintln(os.Stderr, "unknown subcommand")
		os.Exit(2)
	}
	if err := bw.Flush(); err != nil {
		fmt.Fprintln(os.Stderr, err)
		os.Exit(2)
	}
	_ = of.Close()
	js, _ := json.Marshal(stats)
	fmt.Println(string(js))
	if hangs > 0 {
		// goroutines stuck inside the code under test keep spinning: leave at once
		os.Exit(0)
	}
}
