package main

import (
	"bufio"
	"encoding/json"
	"flag"
	"fmt"
	"os"
	"sort"
	"strings"
	"sync"
	"time"

	m "verif/harness/dbmodel"
)

// ---------------------------------------------------------------- spec/TrimReplay.tla on the real code (C07)
//
// TLC exports every behaviour of TrimReplay that ends with a replay (Lead / Follow).  A behaviour is executed
// on the real code with a log whose content comes from a behaviour of OxiaDbMC (the first n logged requests
// of a sequence): Write = the next request through the real RF=1 leader (compared with OxiaDb.tla step by
// step; the dump of the running node after entry k is "the result of applying 0..k"), Flush = flush +
// checkpoint of the real Pebble KV, Trim = one round of the real trimmer, Crash = the directories a process
// kill leaves (database image of the last flush + the WAL files), Lead / Follow = real controllers on them.
// Where the real WAL opens a new segment is decided by bytes, in the specification by the `roll` choice of
// Write: the behaviours that differ in their rolls only are one job, and what the specification prescribes
// is looked up with what the real node is observed to be at the restart: (entries n, database commit offset
// c, first offset f of the reopened WAL, role, announced commit offset) -> (outcome, commit offset after).

type trStep struct {
	A   string `json:"a"`
	X   int    `json:"x"`
	Out string `json:"out"`
	N   int    `json:"n"`
	C   int    `json:"c"`
	F   int    `json:"f"`
	D   int    `json:"d"`
}

type trKey struct {
	N, C, F int
	Role    string
	Adv     int
}

type trExp struct {
	Out string
	K   int
}

type trJob struct {
	Steps []trStep // rolls and trim targets are the real node's
	key   string
	fs    map[int]bool // first offsets the specification has for this job
}

type trObs struct {
	Role    string  `json:"role"`
	Adv     int     `json:"adv"`
	N       int     `json:"n"`
	C       int     `json:"c"`
	F       int     `json:"f"`
	Segs    []int64 `json:"segments"`
	Out     string  `json:"outcome"`
	Err     string  `json:"error"`
	K       int     `json:"commit_after"`
	WantOut string  `json:"spec_outcome"`
	WantK   int     `json:"spec_commit_after"`
}

func skeletonKey(steps []trStep) string {
	var b strings.Builder
	for _, s := range steps {
		switch s.A {
		case "Follow":
			fmt.Fprintf(&b, "Follow%d ", s.X)
		default:
			b.WriteString(s.A + " ")
		}
	}
	return b.String()
}

func loadCases(path string) (jobs []*trJob, table map[trKey]trExp, ncases int, err error) {
	f, err := os.Open(path)
	if err != nil {
		return nil, nil, 0, err
	}
	defer f.Close()
	sc := bufio.NewScanner(f)
	sc.Buffer(make([]byte, 1<<20), 1<<26)
	table = map[trKey]trExp{}
	byKey := map[string]*trJob{}
	for sc.Scan() {
		if len(sc.Bytes()) == 0 {
			continue
		}
		var steps []trStep
		if err := json.Unmarshal(sc.Bytes(), &steps); err != nil {
			return nil, nil, 0, fmt.Errorf("bad case line: %v", err)
		}
		if len(steps) < 2 || steps[len(steps)-2].A != "Crash" {
			return nil, nil, 0, fmt.Errorf("a case does not end with Crash + replay: %s", sc.Text())
		}
		ncases++
		down, last := steps[len(steps)-2], steps[len(steps)-1]
		role := "leader"
		if last.A == "Follow" {
			role = "follower"
		} else if last.A != "Lead" {
			return nil, nil, 0, fmt.Errorf("unknown replay action %q", last.A)
		}
		k := trKey{N: down.N, C: down.C, F: down.F, Role: role, Adv: last.X}
		e := trExp{Out: last.Out, K: last.C}
		if old, ok := table[k]; ok && old != e {
			return nil, nil, 0, fmt.Errorf("the specification is not a function of the restart state: %+v -> %+v and %+v", k, old, e)
		}
		table[k] = e
		sk := skeletonKey(steps)
		j := byKey[sk]
		if j == nil {
			j = &trJob{Steps: steps, key: sk, fs: map[int]bool{}}
			byKey[sk] = j
			jobs = append(jobs, j)
		}
		j.fs[down.F] = true
	}
	sort.Slice(jobs, func(a, b int) bool { return jobs[a].key < jobs[b].key })
	return jobs, table, ncases, sc.Err()
}

// logged: the Write steps of a sequence that the specification has in the log, up to the first step the
// harness cannot use (known-finding step, infrastructure error).
func usableWrites(beh []m.Step) (steps []m.Step, logged int) {
	for i := range beh {
		s := beh[i]
		if s.A == "Routes" || s.Kf || s.Ovf || strings.HasPrefix(s.Err, "ERROR") {
			break
		}
		if s.A != "Write" {
			continue // (a graceful restart flushes: Flush is the behaviour's own)
		}
		steps = append(steps, s)
		if s.Err == "" && s.Off >= 0 {
			logged++
		}
	}
	return steps, logged
}

type trOutcome struct {
	obs      *trObs
	mm       *mismatch
	harness  error
	skipped  string // the job does not apply to the sequence
	disagree string // the real code deviates from TrimReplay.tla without breaking the property
	offModel string // the real node was not in a restart state the specification has for this job
	segFull  bool   // an entry of the log does not fit the segment size
	class    string // kind of deviation (reports are one per class)
	steps    int
}

func trimOne(seq []m.Step, job *trJob, table map[trKey]trExp, seg int, settle time.Duration) (o trOutcome) {
	node, err := m.NewTrimNode(int32(seg))
	if err != nil {
		o.harness = err
		return o
	}
	closed := false
	defer func() {
		if !closed {
			node.Close()
		}
	}()
	e := node.LeaderEngine
	probeKeys := m.KeysOf(seq)
	dumps := map[int][]m.DumpEntry{}
	if dumps[-1], err = e.LiveDump(); err != nil {
		o.harness = err
		return o
	}
	var done []m.Step
	fail := func(cat, what string) trOutcome {
		o.class = cat
		if o.obs != nil {
			o.class = o.obs.Role + "/" + o.obs.Out + "/" + cat // one report per role, outcome and kind of deviation
		}
		cs, _ := json.Marshal(job.Steps)
		ob, _ := json.Marshal(o.obs)
		o.mm = &mismatch{Mode: "trim", Kind: "trimreplay", Behaviour: done, Step: len(done) - 1, What: what, Case: cs, Observed: ob, Seg: seg}
		return o
	}
	cur := 0
	var rst *m.Restarted
	defer func() {
		if rst != nil {
			rst.Close()
		}
	}()
	for si, st := range job.Steps {
		switch st.A {
		case "Write":
			for {
				if cur >= len(seq) {
					o.skipped = "the sequence has fewer logged requests"
					return o
				}
				want := &seq[cur]
				cur++
				got := argsOf(want)
				problems := m.Exec(e, &got, probeKeys)
				got.Normalize()
				o.steps++
				done = append(done, *want)
				for _, p := range problems {
					if strings.HasPrefix(p, "harness:") {
						o.harness = fmt.Errorf("%s", p)
						return o
					}
				}
				if strings.Contains(got.Err, "segment is full") {
					o.segFull = true // (the caller takes a bigger segment size for this log)
					return o
				}
				if len(problems) > 0 {
					return fail("reads", "read paths of the running node disagree: "+strings.Join(problems, "; "))
				}
				if d := m.Diff(want, &got, scope); d != "" {
					return fail("reference", "the running node (the reference for \"the entries 0..k applied\") deviates from OxiaDb.tla: "+d)
				}
				if got.Err == "" && got.Off >= 0 {
					if dumps[got.Off], err = e.LiveDump(); err != nil {
						o.harness = err
						return o
					}
					if got.Off+1 != st.N {
						o.harness = fmt.Errorf("harness: entry %d logged where the behaviour has %d entries", got.Off, st.N)
						return o
					}
					break
				}
			}
		case "Flush":
			if err := node.Flush(); err != nil {
				o.harness = fmt.Errorf("flush + checkpoint of the running database: %v", err)
				return o
			}
		case "Trim":
			first, err := node.Trim()
			if err != nil {
				return fail("trimmer", fmt.Sprintf("a trimmer round on the running node (commit offset %d) failed: %v", e.NextOffset()-1, err))
			}
			if int(first) != st.F {
				o.offModel = fmt.Sprintf("after the trimmer round the running WAL serves from offset %d, the behaviour has %d", first, st.F)
			}
		case "Crash":
			if rst, err = node.Crash(); err != nil {
				o.harness = err
				return o
			}
			node.Close()
			closed = true
		case "Lead", "Follow":
			if rst == nil || si != len(job.Steps)-1 {
				o.harness = fmt.Errorf("harness: behaviour shape")
				return o
			}
			obs := &trObs{Role: "leader", Adv: st.X, N: rst.N, F: int(rst.First), Segs: rst.Segs}
			o.obs = obs
			if rst.Last < 0 {
				obs.F = 0
			}
			if st.A == "Lead" {
				obs.Adv = 0
				refused, herr := rst.Lead()
				if herr != nil {
					o.harness = herr
					return o
				}
				obs.Out = "ok"
				if refused != nil {
					obs.Out, obs.Err = "refused", refused.Error()
				}
			} else {
				obs.Role = "follower"
				// a refusal is signalled (the stream is closed); where the specification prescribes one, a node that
				// neither refuses nor applies is only waited for briefly (it is a disagreement, not a verdict)
				granted := settle
				out, refusal, herr := rst.Follow(int64(st.X), func(c0 int64) time.Duration {
					if exp, ok := table[trKey{N: obs.N, C: int(c0), F: obs.F, Role: "follower", Adv: st.X}]; ok && exp.Out == "ok" {
						granted = m.CallTimeout
					}
					return granted
				})
				if herr != nil {
					o.harness = herr
					return o
				}
				obs.Out = out
				if refusal != nil {
					obs.Err = refusal.Error()
				}
			}
			obs.C = int(rst.C0)
			db := rst.DB()
			if db == nil {
				o.harness = fmt.Errorf("harness: the restarted node has no database")
				return o
			}
			k64, err := db.ReadCommitOffset()
			if err != nil {
				return fail("unreadable", "the commit offset of the restarted node's database cannot be read: "+err.Error())
			}
			obs.K = int(k64)
			dump, err := m.DumpDB(db)
			if err != nil {
				o.harness = err
				return o
			}
			exp, known := table[trKey{N: obs.N, C: obs.C, F: obs.F, Role: obs.Role, Adv: obs.Adv}]
			obs.WantOut, obs.WantK = "?", -2
			spec := "TrimReplay.tla has no such restart state"
			if known {
				obs.WantOut, obs.WantK = exp.Out, exp.K
				if exp.Out == "refused" {
					spec = fmt.Sprintf("TrimReplay.tla: the entries %d..%d are no longer in the log, the replay must refuse and the database stay the result of the entries 0..%d",
						obs.C+1, obs.F-1, obs.C)
				} else {
					spec = fmt.Sprintf("TrimReplay.tla: the replay resumes at offset %d and the database becomes the result of the entries 0..%d", obs.C+1, exp.K)
				}
			}
			how := fmt.Sprintf("process kill with the database flushed at commit offset %d and the log holding the entries %d..%d (segments %v; %d entries were logged); restart as %s",
				obs.C, obs.F, obs.N-1, obs.Segs, obs.N, obs.Role)
			if obs.Role == "leader" {
				how += fmt.Sprintf(": BecomeLeader -> %s", okOr(obs.Out, obs.Err))
			} else {
				how += fmt.Sprintf(", next entry announces commit offset %d -> %s", obs.Adv, okOr(obs.Out, obs.Err))
			}
			// the property: the database is the result of applying 0..k, k = the commit offset it stores
			ref, ok := dumps[obs.K]
			if !ok {
				return fail("beyond", fmt.Sprintf("%s: the database stores commit offset %d, the log has the entries 0..%d. %s", how, obs.K, obs.N-1, spec))
			}
			name := fmt.Sprintf("the entries 0..%d applied once each in order", obs.K)
			if obs.K < 0 {
				name = "an empty database (no entry applied)"
			}
			if w, _ := m.DiffDumps(ref, dump, name, fmt.Sprintf("the restarted node (stored commit offset %d)", obs.K)); w != "" {
				return fail("notfold", fmt.Sprintf("%s: the database is not the result of applying the entries up to its commit offset: %s. %s", how, w, spec))
			}
			if obs.K < obs.C {
				return fail("back", fmt.Sprintf("%s: the commit offset of the database went back from %d to %d. %s", how, obs.C, obs.K, spec))
			}
			if obs.Role == "leader" && obs.Out == "ok" && obs.K != obs.N-1 {
				return fail("incomplete", fmt.Sprintf("%s: the node leads with a database at commit offset %d, its log ends at %d. %s", how, obs.K, obs.N-1, spec))
			}
			if !known {
				o.offModel = fmt.Sprintf("restart state n=%d c=%d f=%d %s adv=%d is not in the exported cases", obs.N, obs.C, obs.F, obs.Role, obs.Adv)
				return o
			}
			if !job.fs[obs.F] || obs.C != job.Steps[len(job.Steps)-2].C {
				o.offModel = fmt.Sprintf("the behaviour reaches the restart with c=%d and f in %v, the real node with c=%d f=%d", job.Steps[len(job.Steps)-2].C, keysOf(job.fs), obs.C, obs.F)
			}
			if obs.Out != exp.Out || obs.K != exp.K {
				if obs.Out == "stalled" && obs.K < obs.Adv && exp.Out == "ok" {
					o.harness = fmt.Errorf("hang: %s; the follower applied up to %d within %v", how, obs.K, m.CallTimeout)
					return o
				}
				o.disagree = fmt.Sprintf("%s, database at commit offset %d (consistent). %s", how, obs.K, spec)
			}
		default:
			o.harness = fmt.Errorf("harness: unknown action %q", st.A)
			return o
		}
	}
	return o
}

func okOr(out, err string) string {
	if err != "" {
		return fmt.Sprintf("%s (%s)", out, err)
	}
	return out
}

func keysOf(s map[int]bool) []int {
	var out []int
	for k := range s {
		out = append(out, k)
	}
	sort.Ints(out)
	return out
}

type trResult struct {
	Cases      int            `json:"cases"`     // behaviours exported by TLC
	Jobs       int            `json:"jobs"`      // behaviours up to the rolls
	Table      int            `json:"table"`     // restart states x replay actions the specification decides
	Sequences  int            `json:"sequences"` // logs (request sequences of OxiaDbMC)
	Executed   int            `json:"executed"`  // (log, behaviour) pairs executed on the real code
	Skipped    int            `json:"skipped"`
	Steps      int            `json:"steps"`
	Gap        int            `json:"gap"`     // executed with first > c+1 at the restart
	Refused    int            `json:"refused"` // real refusals observed
	Covered    int            `json:"covered"` // distinct table entries met by an execution
	Disagree   int            `json:"disagreements"`
	OffModel   int            `json:"off_model"`
	Notes      []string       `json:"notes"`
	Layouts    map[string]int `json:"layouts"`
	Bad        int            `json:"mismatching"`
	Mismatches []mismatch     `json:"mismatches"`
	Sample     []trObs        `json:"sample"`
}

func cmdTrimReplay(args []string) int {
	fs := flag.NewFlagSet("trimreplay", flag.ExitOnError)
	in := fs.String("in", "", "ndjson of OxiaDbMC behaviours (the logs)")
	cases := fs.String("cases", "", "ndjson of TrimReplay behaviours")
	out := fs.String("out", "", "result json")
	workers := fs.Int("workers", 8, "")
	segList := fs.String("seg", "96,128", "WAL segment sizes in bytes (used in turn; a log with an entry that does not fit gets the next bigger size)")
	maxSeq := fs.Int("maxseq", 0, "logs used at most (0: all)")
	maxExec := fs.Int("max", 0, "executions at most (0: all); spread evenly over logs x behaviours")
	maxBad := fs.Int("maxbad", 25, "")
	settleMs := fs.Int("settle", 1500, "ms a follower is given to apply or refuse")
	rerun := fs.String("rerun", "", "a mismatch file: execute its behaviour on its log again")
	_ = fs.Parse(args)
	m.Quiet()
	jobs, table, ncases, err := loadCases(*cases)
	if err != nil {
		fmt.Fprintln(os.Stderr, err)
		return 2
	}
	maxN := 0
	for k := range table {
		if k.N > maxN {
			maxN = k.N
		}
	}
	var seqs [][]m.Step
	seen := map[string]bool{}
	if *rerun != "" {
		b, err := os.ReadFile(*rerun)
		if err != nil {
			fmt.Fprintln(os.Stderr, err)
			return 2
		}
		var mm mismatch
		var cs []trStep
		if err := json.Unmarshal(b, &mm); err != nil || json.Unmarshal(mm.Case, &cs) != nil {
			fmt.Fprintln(os.Stderr, "bad mismatch file", err)
			return 2
		}
		var keep []*trJob
		for _, j := range jobs {
			if j.key == skeletonKey(cs) {
				keep = append(keep, j)
			}
		}
		if len(keep) == 0 {
			// (a behaviour of a bigger configuration than the one given)
			keep = []*trJob{{Steps: cs, key: skeletonKey(cs), fs: map[int]bool{cs[len(cs)-2].F: true}}}
		}
		jobs = keep
		// the log: the requests that were executed, and the rest of what the behaviour needs is not needed
		seqs = [][]m.Step{mm.Behaviour}
		if mm.Seg > 0 {
			*segList = fmt.Sprint(mm.Seg)
		}
		*in = os.DevNull
	}
	f, err := os.Open(*in)
	if err != nil {
		fmt.Fprintln(os.Stderr, err)
		return 2
	}
	defer f.Close()
	sc := bufio.NewScanner(f)
	sc.Buffer(make([]byte, 1<<20), 1<<28)
	for sc.Scan() {
		if len(sc.Bytes()) == 0 {
			continue
		}
		var beh []m.Step
		if err := json.Unmarshal(sc.Bytes(), &beh); err != nil {
			fmt.Fprintln(os.Stderr, "bad behaviour line:", err)
			return 2
		}
		ws, _ := usableWrites(beh)
		// only the first maxN logged requests are ever used
		n, cut := 0, len(ws)
		for i := range ws {
			if ws[i].Err == "" && ws[i].Off >= 0 {
				n++
				if n == maxN {
					cut = i + 1
					break
				}
			}
		}
		ws = ws[:cut]
		if n == 0 {
			continue
		}
		kb, _ := json.Marshal(ws)
		if seen[string(kb)] {
			continue
		}
		seen[string(kb)] = true
		if *maxSeq == 0 || len(seqs) < *maxSeq {
			seqs = append(seqs, ws)
		}
	}
	var segs []int
	for _, x := range strings.Split(*segList, ",") {
		var v int
		if _, err := fmt.Sscanf(x, "%d", &v); err != nil || v < 32 {
			fmt.Fprintln(os.Stderr, "bad -seg")
			return 2
		}
		segs = append(segs, v)
	}
	type pair struct {
		seq  []m.Step
		job  *trJob
		si   int
		seg0 int
	}
	var pairs []pair
	for _, j := range jobs {
		for si, s := range seqs {
			_, n := usableWrites(s)
			if n >= j.Steps[len(j.Steps)-1].N {
				pairs = append(pairs, pair{seq: s, job: j, si: si})
			}
		}
	}
	res := trResult{Cases: ncases, Jobs: len(jobs), Table: len(table), Sequences: len(seqs), Layouts: map[string]int{}}
	if *maxExec > 0 && len(pairs) > *maxExec {
		// an even spread: consecutive pairs are the same behaviour on different logs
		var pick []pair
		for i := 0; i < *maxExec; i++ {
			pick = append(pick, pairs[i*len(pairs)/(*maxExec)])
		}
		pairs = pick
	}
	for i := range pairs {
		pairs[i].seg0 = segs[i%len(segs)]
	}
	minSeg := map[int]int{} // log -> smallest segment size known to hold its entries
	var mu sync.Mutex
	var harnessErr error
	bad := 0
	seenClass := map[string]bool{}
	covered := map[trKey]bool{}
	ch := make(chan pair, len(pairs))
	for _, p := range pairs {
		ch <- p
	}
	close(ch)
	settle := time.Duration(*settleMs) * time.Millisecond
	var wg sync.WaitGroup
	for w := 0; w < *workers; w++ {
		wg.Add(1)
		go func() {
			defer wg.Done()
			for p := range ch {
				mu.Lock()
				stop := bad >= *maxBad || harnessErr != nil
				mu.Unlock()
				if stop {
					continue
				}
				mu.Lock()
				seg := p.seg0
				if minSeg[p.si] > seg {
					seg = minSeg[p.si]
				}
				mu.Unlock()
				o := trimOne(p.seq, p.job, table, seg, settle)
				for o.segFull && seg < 1<<16 {
					seg += seg / 2
					mu.Lock()
					if minSeg[p.si] < seg {
						minSeg[p.si] = seg
					}
					mu.Unlock()
					o = trimOne(p.seq, p.job, table, seg, settle)
				}
				if o.segFull {
					o.harness = fmt.Errorf("harness: a log entry does not fit a WAL segment of %d bytes", seg)
				}
				if o.mm != nil && o.harness == nil {
					// deterministic: a deviation must show again
					if o2 := trimOne(p.seq, p.job, table, seg, settle); o2.harness != nil || o2.mm == nil {
						o.harness = fmt.Errorf("a deviation did not show again on re-execution: %s", o.mm.What)
					}
				}
				mu.Lock()
				res.Steps += o.steps
				switch {
				case o.harness != nil:
					if harnessErr == nil {
						harnessErr = o.harness
					}
				case o.skipped != "":
					res.Skipped++
				default:
					res.Executed++
					if o.obs != nil {
						if o.obs.F > o.obs.C+1 {
							res.Gap++
						}
						if o.obs.Out == "refused" {
							res.Refused++
						}
						covered[trKey{N: o.obs.N, C: o.obs.C, F: o.obs.F, Role: o.obs.Role, Adv: o.obs.Adv}] = true
						res.Layouts[fmt.Sprint(o.obs.Segs)]++
						if len(res.Sample) < 6 && (o.obs.F > 0 || len(res.Sample) < 2) {
							res.Sample = append(res.Sample, *o.obs)
						}
					}
					if o.disagree != "" {
						res.Disagree++
						if len(res.Notes) < 10 {
							res.Notes = append(res.Notes, "disagreement: "+o.disagree)
						}
					}
					if o.offModel != "" {
						res.OffModel++
						if len(res.Notes) < 10 {
							res.Notes = append(res.Notes, "off model: "+o.offModel)
						}
					}
					if o.mm != nil {
						bad++
						if c := o.class; !seenClass[c] {
							seenClass[c] = true
							res.Mismatches = append(res.Mismatches, *o.mm)
						}
					}
				}
				mu.Unlock()
			}
		}()
	}
	wg.Wait()
	if harnessErr != nil {
		fmt.Fprintln(os.Stderr, "harness failure:", harnessErr)
		return 2
	}
	res.Bad = bad
	res.Covered = len(covered)
	b, _ := json.Marshal(res)
	if err := os.WriteFile(*out, b, 0o644); err != nil {
		fmt.Fprintln(os.Stderr, err)
		return 2
	}
	return 0
}
