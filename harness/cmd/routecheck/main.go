// routecheck decides C06 on real code: the same committed log must give the same DB whichever way it is
// applied.
//
//	routecheck replay -in behaviours.ndjson -out result.json [-chunk bytes]
//	    every input line is a behaviour exported by TLC (OxiaDbMC, mode c06): write requests mixing every
//	    feature and leader restarts, followed by one "Routes" record with the cut offset of the snapshot route
//	    (off) and the commit-offset lag of the follower feed (ts).  The requests are written through a real
//	    RF=1 leader (each step compared with what OxiaDb.tla demands: results, records, index and shadow keys,
//	    notification batch, version counter); then the leader's log is applied again by
//	      wal      a new leader controller on a copy of the WAL and an empty DB (BecomeLeader replays it),
//	      follower a real follower controller fed through its Replicate stream (commit offsets lagging),
//	      snapshot a second follower that installs a snapshot cut from the first one after offset `off`
//	               (real chunker with -chunk bytes per chunk, real loader, handleSnapshot) and is fed the rest,
//	      reopen   both followers closed (their databases flush) and re-created on their directories,
//	    and the full ordered dumps (all keys except the term keys) of the DBs must be equal.  Every replica is
//	    also READ: each record the specification has after the log (and, for the first follower, after the
//	    cut: before and after the snapshot flushed its memory) by a point get, and the probes of the route
//	    record (floor / ceiling / lower / higher gets, range lists and scans) with the answers TLC computed.
//	routecheck drive -seed S -n N -ops K -out trace.ndjson -res result.json
//	    the same with random request streams; the leader's execution is recorded for DbTrace.tla.
//	routecheck rerun -in replay.json -out trace.ndjson -res result.json
//	routecheck live -in behaviours.ndjson -out trace.ndjson -res result.json [-groups G -writers W]
//	    the write requests of the behaviours through real RF=3 leaders under concurrent writers (see cmdLive).
//	routecheck crashpoints -in behaviours.ndjson -out result.json [-max sequences -workers W]
//	    crash images of the storage engine at every batch commit (see crashOne); the result has the format of
//	    replay ("routes" = crash images checked, mismatches of kind "crash").
package main

import (
	"bufio"
	"encoding/json"
	"flag"
	"fmt"
	"math/rand"
	"os"
	"strings"
	"sync"

	"github.com/oxia-db/oxia/proto"
	"github.com/oxia-db/oxia/server/kv"

	m "verif/harness/dbmodel"
)

type mismatch struct {
	Mode      string   `json:"mode"`
	Kind      string   `json:"kind"` // "routes"
	Behaviour []m.Step `json:"behaviour"`
	Step      int      `json:"step"`
	What      string   `json:"what"`
	Cut       int      `json:"cut"`
	Lag       int      `json:"lag"`
	Chunk     int64    `json:"chunk"`
	// trimreplay (C07): the TrimReplay.tla behaviour, what the real node was observed to be, the WAL segment size
	Case     json.RawMessage `json:"case,omitempty"`
	Observed json.RawMessage `json:"observed,omitempty"`
	Seg      int             `json:"seg,omitempty"`
}

var scope = map[string]bool{"res": true, "recs": true, "lv": true, "idx": true, "shadow": true, "nf": true}

// tsClass is the class of route differences in which two replicas hold the same records and notification batches
// with other timestamps: the live leader applied an entry with one clock reading, the routes that apply the log
// with the one the entry carries.  Whether a request is hit depends on where a millisecond boundary falls, so
// the difference does not show at the same step (or at all) when the same requests are executed again: it is
// confirmed by the CLASS showing again (see cmdReplay), and reported with the number of executions that showed it.
const tsClass = "timestamps differ between the live route and the log routes"

// diffRoutes is m.DiffDumps between the live leader and another route, with the class marked.
func diffRoutes(a, b []m.DumpEntry, an, bn string) (string, int) {
	w, enc := m.DiffDumps(a, b, an, bn)
	if w != "" && m.DumpsDifferInTimestampsOnly(a, b) {
		w = tsClass + ": " + w
	}
	return w, enc
}

// tagReads marks a deviation of a route's reads from the specification ("... X, the specification has Y") in
// which X and Y are the same record up to the timestamps (the live leader's reads matched the specification).
func tagReads(w string) string {
	const sep = ", the specification has "
	i := strings.LastIndex(w, sep)
	if i < 0 {
		return w
	}
	left, right := w[:i], w[i+len(sep):]
	j := strings.LastIndex(left, "{")
	if j < 0 || !strings.HasPrefix(right, "{") || left[j:] == right {
		return w
	}
	if m.StripTimestamps(left[j:]) == m.StripTimestamps(right) {
		return tsClass + ": " + w
	}
	return w
}

func argsOf(want *m.Step) m.Step { return m.Step{A: want.A, Ts: want.Ts, Req: want.Req} }

// prepared is what every route choice of one sequence shares: the leader's dump and log, and the verdict of
// the route that does not depend on the choice (replay of the whole WAL by a new leader).
type prepared struct {
	live    []m.DumpEntry
	entries []*proto.LogEntry
	what    string
	enc     int
}

// demanded is what the specification recorded about the state the routes must arrive at: the step after
// the whole log (a route record with probes, or the last recorded step) and the steps by offset.
type demanded struct {
	final *m.Step
	byOff map[int]*m.Step
}

func demandedOf(beh []m.Step, final *m.Step) *demanded {
	d := &demanded{final: final, byOff: map[int]*m.Step{}}
	for i := range beh {
		if beh[i].A == "Write" && beh[i].Err == "" && beh[i].Off >= 0 {
			d.byOff[beh[i].Off] = &beh[i]
		}
	}
	return d
}

// finalOf: a route record written by TLC carries the demanded records and probes; one appended to a random
// stream does not, and the last executed call stands for it.
func finalOf(route *m.Step, done []m.Step) *m.Step {
	if len(route.Recs) > 0 || len(route.Gets) > 0 || len(route.Lists) > 0 || len(done) == 0 {
		return route
	}
	return &done[len(done)-1]
}

func prepare(e *m.LeaderEngine, dem *demanded) (*prepared, error) {
	p := &prepared{}
	var err error
	if p.live, err = e.LiveDump(); err != nil {
		return nil, fmt.Errorf("dump of the leader: %v", err)
	}
	if dem != nil && dem.final != nil {
		if w := m.CheckReads(e.LiveDB(), e.TsMap(), dem.final); w != "" {
			p.what = "reads of the leader (live): " + w
			return p, nil
		}
	}
	if p.entries, err = e.LogEntries(); err != nil {
		return nil, fmt.Errorf("reading the leader's log: %v", err)
	}
	if len(p.entries) != e.NextOffset() {
		p.what = fmt.Sprintf("the leader's WAL holds %d entries, %d requests were logged", len(p.entries), e.NextOffset())
		return p, nil
	}
	if len(p.entries) == 0 {
		return p, nil
	}
	// wal: replay of the whole log by a new leader
	rd, rw, err := e.ReplayedFromWalRead(func(db kv.DB) string {
		if dem == nil || dem.final == nil {
			return ""
		}
		return m.CheckReads(db, e.TsMap(), dem.final)
	})
	if err != nil {
		p.what = "route wal (new leader on the same WAL, empty DB): " + err.Error()
		return p, nil
	}
	if rw != "" {
		p.what = tagReads("reads of the leader replaying the WAL: " + rw)
		return p, nil
	}
	p.what, p.enc = diffRoutes(p.live, rd, "leader (live)", "leader replaying the WAL")
	return p, nil
}

// compareRoutes applies the leader's log by the other routes and compares the dumps.
func compareRoutes(e *m.LeaderEngine, pre *prepared, dem *demanded, cut, lag int) (what string, encDiffs int, harness error) {
	if pre == nil {
		var err error
		if pre, err = prepare(e, dem); err != nil {
			return "", 0, err
		}
	}
	if pre.what != "" || len(pre.entries) == 0 {
		return pre.what, pre.enc, nil
	}
	live, entries := pre.live, pre.entries
	encDiffs = pre.enc
	n := len(entries)
	if cut >= n {
		cut = n - 1
	}
	term := entries[n-1].Term
	check := func(name string, d []m.DumpEntry) string {
		w, enc := diffRoutes(live, d, "leader (live)", name)
		encDiffs += enc
		return w
	}
	tm := e.TsMap()
	reads := func(name string, db kv.DB, want *m.Step) string {
		if dem == nil || want == nil {
			return ""
		}
		if w := m.CheckReads(db, tm, want); w != "" {
			return tagReads("reads of the " + name + ": " + w)
		}
		return ""
	}
	var atCut, final *m.Step
	if dem != nil {
		atCut, final = dem.byOff[cut], dem.final
	}
	// follower
	f1, err := m.NewFollower("default", term)
	if err != nil {
		return "", 0, err
	}
	defer f1.Close()
	cm := func(off int64, floor int64) int64 {
		c := off - 1 - int64(lag)
		if c < floor {
			c = floor
		}
		return c
	}
	for i := 0; i <= cut; i++ {
		if err := f1.Append(entries[i], cm(entries[i].Offset, -1)); err != nil {
			return "route follower: " + err.Error(), encDiffs, nil
		}
	}
	push := m.Filler(term, int64(n))
	if cut+1 < n {
		push = entries[cut+1]
	}
	if err := f1.Append(push, int64(cut)); err != nil {
		return "route follower: " + err.Error(), encDiffs, nil
	}
	if err := f1.WaitApplied(int64(cut)); err != nil {
		return "route follower: " + err.Error(), encDiffs, nil
	}
	if w := reads(fmt.Sprintf("follower that applied up to offset %d (nothing flushed since it started)", cut), f1.DB(), atCut); w != "" {
		return w, encDiffs, nil
	}
	chunks, err := f1.Chunks()
	if err != nil {
		return "snapshot of the follower's DB after offset " + fmt.Sprint(cut) + ": " + err.Error(), encDiffs, nil
	}
	if w := reads(fmt.Sprintf("follower that applied up to offset %d, after the snapshot flushed its database", cut), f1.DB(), atCut); w != "" {
		return w, encDiffs, nil
	}
	for i := cut + 2; i < n; i++ {
		if err := f1.Append(entries[i], cm(entries[i].Offset, int64(cut))); err != nil {
			return "route follower: " + err.Error(), encDiffs, nil
		}
	}
	if cut+1 < n {
		if err := f1.Append(m.Filler(term, int64(n)), int64(n-1)); err != nil {
			return "route follower: " + err.Error(), encDiffs, nil
		}
	}
	if err := f1.WaitApplied(int64(n - 1)); err != nil {
		return "route follower: " + err.Error(), encDiffs, nil
	}
	fd, err := f1.Dump()
	if err != nil {
		return "", 0, err
	}
	if w := check("follower", fd); w != "" {
		return w, encDiffs, nil
	}
	if w := reads("follower", f1.DB(), final); w != "" {
		return w, encDiffs, nil
	}
	// snapshot after `cut` + the rest
	f2, err := m.NewFollower("default", term)
	if err != nil {
		return "", 0, err
	}
	defer f2.Close()
	ack, err := f2.InstallSnapshot(chunks)
	if err != nil {
		return fmt.Sprintf("route snapshot (cut after offset %d, %d chunks): %v", cut, len(chunks), err), encDiffs, nil
	}
	if ack != int64(cut) {
		return fmt.Sprintf("route snapshot: the snapshot was cut after offset %d, the follower acknowledges offset %d", cut, ack), encDiffs, nil
	}
	if err := f2.Feed(entries, cut+1, lag, int64(cut)); err != nil {
		return "route snapshot, replication of the rest: " + err.Error(), encDiffs, nil
	}
	sd, err := f2.Dump()
	if err != nil {
		return "", 0, err
	}
	f2name := fmt.Sprintf("follower installed from a snapshot after offset %d (%d chunks)", cut, len(chunks))
	if w := check(f2name, sd); w != "" {
		return w, encDiffs, nil
	}
	if w := reads(f2name, f2.DB(), final); w != "" {
		return w, encDiffs, nil
	}
	// restart of both followers: close (the database flushes) and re-create on the same directories
	for _, x := range []struct {
		f    *m.Follower
		name string
	}{{f1, "follower, restarted"}, {f2, f2name + ", restarted"}} {
		if err := x.f.Reopen(); err != nil {
			return "route reopen (" + x.name + "): " + err.Error(), encDiffs, nil
		}
		d, err := x.f.Dump()
		if err != nil {
			return "", 0, err
		}
		if w := check(x.name, d); w != "" {
			return w, encDiffs, nil
		}
		if w := reads(x.name, x.f.DB(), final); w != "" {
			return w, encDiffs, nil
		}
	}
	return "", encDiffs, nil
}

type outcome struct {
	mm      *mismatch
	steps   int
	routes  int
	enc     int
	harness error
}

func replayOne(beh []m.Step, rec func(*m.Step)) (o outcome) {
	e, err := m.NewLeaderEngine()
	if err != nil {
		o.harness = err
		return o
	}
	defer e.Close()
	probeKeys := m.KeysOf(beh)
	var pre *prepared
	for i := range beh {
		want := &beh[i]
		if want.A == "Routes" {
			// (a group: the same sequence with every route choice TLC made for it)
			dem := demandedOf(beh[:i], want)
			if pre == nil {
				if pre, err = prepare(e, dem); err != nil {
					o.harness = err
					return o
				}
			}
			what, enc, herr := compareRoutes(e, pre, dem, want.Off, want.Ts)
			o.routes++
			o.enc += enc
			if herr != nil {
				o.harness = herr
				return o
			}
			if what != "" {
				n := i
				for n > 0 && beh[n-1].A == "Routes" {
					n--
				}
				b := append(append([]m.Step{}, beh[:n]...), *want)
				o.mm = &mismatch{Mode: "leader", Kind: "routes", Behaviour: b, Step: len(b) - 1, What: what, Cut: want.Off, Lag: want.Ts, Chunk: kv.MaxSnapshotChunkSize}
				return o
			}
			continue
		}
		got := argsOf(want)
		problems := m.Exec(e, &got, probeKeys)
		got.Normalize()
		if rec != nil {
			rec(&got)
		}
		o.steps++
		for _, p := range problems {
			if strings.HasPrefix(p, "harness:") {
				o.harness = fmt.Errorf("%s", p)
				return o
			}
		}
		if len(problems) > 0 {
			o.mm = &mismatch{Mode: "leader", Behaviour: beh[:i+1], Step: i, What: "read paths disagree: " + strings.Join(problems, "; ")}
			return o
		}
		if want.Kf {
			return o
		}
		if d := m.Diff(want, &got, scope); d != "" {
			o.mm = &mismatch{Mode: "leader", Behaviour: beh[:i+1], Step: i, What: "live leader deviates from OxiaDb.tla: " + d}
			return o
		}
		if strings.HasPrefix(got.Err, "ERROR") {
			return o
		}
	}
	return o
}

func classOf(w string) string {
	if i := strings.Index(w, ":"); i > 0 {
		w = w[:i]
	}
	for _, c := range "0123456789" {
		w = strings.ReplaceAll(w, string(c), "#")
	}
	return w
}

type result struct {
	Sequences  int        `json:"sequences"`
	Behaviours int        `json:"behaviours"`
	Steps      int        `json:"steps"`
	Routes     int        `json:"routes"`
	EncDiffs   int        `json:"notification_encodings_differing"`
	Bad        int        `json:"mismatching_sequences"`
	Mismatches []mismatch `json:"mismatches"`
}

func cmdReplay(args []string) int {
	fs := flag.NewFlagSet("replay", flag.ExitOnError)
	in := fs.String("in", "", "ndjson of behaviours")
	out := fs.String("out", "", "result json")
	workers := fs.Int("workers", 10, "")
	maxBad := fs.Int("maxbad", 25, "")
	chunk := fs.Int64("chunk", 0, "snapshot chunk size in bytes (0: the default)")
	_ = fs.Parse(args)
	if *chunk > 0 {
		kv.MaxSnapshotChunkSize = *chunk
	}
	m.Quiet()
	f, err := os.Open(*in)
	if err != nil {
		fmt.Fprintln(os.Stderr, err)
		return 2
	}
	defer f.Close()
	sc := bufio.NewScanner(f)
	sc.Buffer(make([]byte, 1<<20), 1<<28)
	var res result
	var mu sync.Mutex
	bad := 0
	seen := map[string]bool{}
	var harnessErr error
	// the timestamp class (see tsClass): executions of this run, executions that showed it, sequences it was first seen in
	execs := 0
	var ts struct {
		hits, seqs int
		first      *mismatch
	}
	lines := make(chan []byte, 64)
	var wg sync.WaitGroup
	for w := 0; w < *workers; w++ {
		wg.Add(1)
		go func() {
			defer wg.Done()
			for line := range lines {
				mu.Lock()
				stop := bad+ts.seqs >= *maxBad || harnessErr != nil
				mu.Unlock()
				if stop {
					continue
				}
				var beh []m.Step
				if err := json.Unmarshal(line, &beh); err != nil {
					mu.Lock()
					harnessErr = fmt.Errorf("bad behaviour line: %v", err)
					mu.Unlock()
					continue
				}
				o := replayOne(beh, nil)
				runs, tsHits := 1, 0
				var tsFirst *mismatch
				if o.mm != nil && o.harness == nil {
					// Only a mismatch that reproduces is reported (what a snapshot contains depends on when Pebble
					// flushed).  Reproduced = one of up to five re-executions of the same sequence shows a mismatch
					// of the same CLASS, at any step: a deviation that depends on timing (a clock tick, a
					// scheduling order) does not hit the same step twice.
					c := classOf(o.mm.What)
					if c == tsClass {
						tsHits++
					}
					again := false
					for try := 0; try < 5 && !again; try++ {
						o2 := replayOne(o.mm.Behaviour, nil)
						runs++
						again = o2.harness == nil && o2.mm != nil && classOf(o2.mm.What) == c
						if again && c == tsClass {
							tsHits++
						}
					}
					switch {
					case c == tsClass:
						// (decided for the whole run below: the class is confirmed by any second execution showing it)
						tsFirst, o.mm = o.mm, nil
					case !again:
						o.harness = fmt.Errorf("a mismatch at step %d did not reproduce in 5 re-executions: %s", o.mm.Step, o.mm.What)
					}
				}
				mu.Lock()
				execs += runs
				ts.hits += tsHits
				if tsFirst != nil {
					ts.seqs++
					if ts.first == nil {
						ts.first = tsFirst
					}
				}
				res.Steps += o.steps
				res.Routes += o.routes
				res.EncDiffs += o.enc
				if o.harness != nil && harnessErr == nil {
					harnessErr = o.harness
				}
				if o.mm != nil && o.harness == nil {
					bad++
					if c := classOf(o.mm.What); !seen[c] {
						seen[c] = true
						res.Mismatches = append(res.Mismatches, *o.mm)
					}
				}
				mu.Unlock()
			}
		}()
	}
	// behaviours that differ in their Routes record only are executed as one: the sequence once, then every route
	groups := map[string][]m.Step{}
	var order []string
	nLines := 0
	for sc.Scan() {
		b := sc.Bytes()
		if len(b) == 0 {
			continue
		}
		nLines++
		var beh []m.Step
		if err := json.Unmarshal(b, &beh); err != nil || len(beh) == 0 {
			fmt.Fprintln(os.Stderr, "bad behaviour line:", err)
			return 2
		}
		last := beh[len(beh)-1]
		if last.A != "Routes" {
			key := fmt.Sprintf("#%d", nLines)
			groups[key] = beh
			order = append(order, key)
			continue
		}
		kb, _ := json.Marshal(beh[:len(beh)-1])
		key := string(kb)
		if g, ok := groups[key]; ok {
			groups[key] = append(g, last)
		} else {
			groups[key] = beh
			order = append(order, key)
		}
	}
	for _, k := range order {
		gb, _ := json.Marshal(groups[k])
		lines <- gb
	}
	close(lines)
	wg.Wait()
	if harnessErr == nil && ts.first != nil {
		if ts.hits >= 2 {
			mm := *ts.first
			mm.What = fmt.Sprintf("%s in %d of %d executions (%d sequences; first: step %d)%s", tsClass, ts.hits, execs, ts.seqs, mm.Step, strings.TrimPrefix(mm.What, tsClass))
			bad += ts.seqs
			res.Mismatches = append(res.Mismatches, mm)
		} else {
			harnessErr = fmt.Errorf("a mismatch at step %d did not reproduce (its class showed in 1 of %d executions): %s", ts.first.Step, execs, ts.first.What)
		}
	}
	if harnessErr != nil {
		fmt.Fprintln(os.Stderr, "harness failure:", harnessErr)
		return 2
	}
	res.Behaviours = nLines
	res.Sequences = len(order)
	res.Bad = bad
	b, _ := json.Marshal(res)
	if err := os.WriteFile(*out, b, 0o644); err != nil {
		fmt.Fprintln(os.Stderr, err)
		return 2
	}
	return 0
}

// ---------------------------------------------------------------- random request streams

var keyPool = []string{"a", "b", "a/b", "a/c", "b/a", "c", "a/b/c", "~", "a.", "B", "a0", "a-"}
var boundPool = []string{"", "a", "a/", "a//", "a.", "a0", "b", "c", "s", "s.", "t/", "t/~", "z", "~~"}

// value numbers: one in four carries a size (1, 8 or 70 KB: a record of its own storage block)
func randomVal(rng *rand.Rand) int {
	v := 1 + rng.Intn(900)
	if rng.Intn(4) == 0 {
		v += m.BigValue * []int{1, 8, 70}[rng.Intn(3)]
	}
	return v
}

func randomReq(rng *rand.Rand, sess []int, next int) m.Req {
	r := m.Req{Puts: []m.Put{}, Dels: []m.Del{}, Rngs: []m.Rng{}}
	for n := 1 + rng.Intn(4); n > 0; n-- {
		switch x := rng.Intn(12); {
		case x < 7:
			p := m.Put{Key: m.K(keyPool[rng.Intn(len(keyPool))]), Val: randomVal(rng), Exp: m.NoExp, Sess: m.NoSess, Deltas: []int{}, Idx: []m.IdxE{}}
			switch y := rng.Intn(10); {
			case y < 2:
				p.Exp = -1
			case y < 3:
				p.Exp = rng.Intn(next + 1)
			case y < 5 && len(sess) > 0:
				p.Sess = sess[rng.Intn(len(sess))]
			case y < 6:
				p.Sess = 900
			case y < 8:
				for k := 1 + rng.Intn(2); k > 0; k-- {
					p.Idx = append(p.Idx, m.IdxE{N: m.K([]string{"i", "i2", "j"}[rng.Intn(3)]), K: m.K([]string{"u", "v", "w"}[rng.Intn(3)])})
				}
			case y < 9:
				p.Key, p.Pkey, p.Deltas = m.K("s"), true, []int{1 + rng.Intn(3)}
			default:
				p.Key, p.Pkey, p.Deltas = m.K("t/u"), true, []int{1 + rng.Intn(2), rng.Intn(3)}
			}
			if rng.Intn(5) == 0 {
				p.Cid = "c1"
			}
			r.Puts = append(r.Puts, p)
		case x < 9:
			r.Dels = append(r.Dels, m.Del{Key: m.K(keyPool[rng.Intn(len(keyPool))]), Exp: m.NoExp})
		default:
			a, b := boundPool[rng.Intn(len(boundPool))], boundPool[rng.Intn(len(boundPool))]
			if m.SlashCmp(a, b) > 0 {
				a, b = b, a
			}
			r.Rngs = append(r.Rngs, m.Rng{S: m.K(a), E: m.K(b)})
		}
	}
	return r
}

func cmdDrive(args []string) int {
	fs := flag.NewFlagSet("drive", flag.ExitOnError)
	seed := fs.Int64("seed", 1, "")
	n := fs.Int("n", 20, "traces")
	ops := fs.Int("ops", 20, "requests per trace")
	out := fs.String("out", "trace.ndjson", "")
	resOut := fs.String("res", "", "result json")
	chunk := fs.Int64("chunk", 0, "")
	_ = fs.Parse(args)
	if *chunk > 0 {
		kv.MaxSnapshotChunkSize = *chunk
	}
	m.Quiet()
	f, err := os.Create(*out)
	if err != nil {
		fmt.Fprintln(os.Stderr, err)
		return 2
	}
	defer f.Close()
	w := bufio.NewWriterSize(f, 1<<20)
	defer w.Flush()
	enc := json.NewEncoder(w)
	rng := rand.New(rand.NewSource(*seed))
	var res result
	execs, tsHits := 0, 0 // the timestamp class (see tsClass)
	var tsFirst *mismatch
	for t := 0; t < *n; t++ {
		e, err := m.NewLeaderEngine()
		if err != nil {
			fmt.Fprintln(os.Stderr, err)
			return 2
		}
		reset := m.Step{A: "Reset", Off: -1, Lv: -1}
		reset.Normalize()
		_ = enc.Encode(&reset)
		var sess []int
		var beh []m.Step
		ok := true
		for k := 0; k < *ops; k++ {
			st := m.Step{A: "Write", Ts: 1000 + 7*e.NextOffset() + rng.Intn(5)}
			switch x := rng.Intn(30); {
			case x == 0 && k > 0:
				st = m.Step{A: "Restart"}
			case x < 3:
				id := e.NextOffset()
				st.Req = m.Req{Puts: []m.Put{{Key: m.K(fmt.Sprintf("%s%016x", m.SessPrefix, id)), Val: -1, Exp: m.NoExp, Sess: m.NoSess}}}
			default:
				st.Req = randomReq(rng, sess, e.NextOffset())
			}
			problems := m.Exec(e, &st, keyPool)
			for _, p := range problems {
				if strings.HasPrefix(p, "harness:") {
					fmt.Fprintln(os.Stderr, p)
					return 2
				}
			}
			if len(problems) > 0 {
				st.Err = "INCONSISTENT: " + strings.Join(problems, "; ")
			}
			st.Normalize()
			_ = enc.Encode(&st)
			beh = append(beh, st)
			if st.Err != "" && st.Err != "REJECTED" {
				ok = false
				break
			}
			if st.A == "Write" && len(st.Req.Puts) == 1 && st.Req.Puts[0].Val == -1 && len(st.Res.Puts) == 1 && st.Res.Puts[0].St == "OK" {
				sess = append(sess, st.Off)
			}
		}
		res.Behaviours++
		res.Steps += len(beh)
		if ok && e.NextOffset() > 0 {
			cut, lag := rng.Intn(e.NextOffset()), []int{0, 1, 3}[rng.Intn(3)]
			// (what the leader showed through its public reads after every call - judged by DbTrace below - is
			// what the other replicas are asked for)
			what, encd, herr := compareRoutes(e, nil, demandedOf(beh, &beh[len(beh)-1]), cut, lag)
			if herr != nil {
				fmt.Fprintln(os.Stderr, "harness failure:", herr)
				return 2
			}
			res.Routes++
			res.EncDiffs += encd
			execs++
			if what != "" {
				// reproduce: up to five re-executions, a difference of the same class (see cmdReplay)
				beh = append(beh, m.Step{A: "Routes", Off: cut, Ts: lag})
				for i := range beh {
					beh[i].Normalize()
				}
				c := classOf(what)
				again := false
				for try := 0; try < 5 && !again; try++ {
					execs++
					again = classOf(replayArgs(beh)) == c
				}
				mm := mismatch{Mode: "leader", Kind: "routes", Behaviour: beh, Step: len(beh) - 1, What: what, Cut: cut, Lag: lag, Chunk: kv.MaxSnapshotChunkSize}
				switch {
				case c == tsClass:
					// (confirmed by any second execution of this run that shows the class)
					tsHits++
					if again {
						tsHits++
					}
					if tsFirst == nil {
						tsFirst = &mm
					}
				case !again:
					fmt.Fprintln(os.Stderr, "harness failure: a route difference did not reproduce in 5 re-executions:", what)
					return 2
				case len(res.Mismatches) < 10:
					res.Mismatches = append(res.Mismatches, mm)
				}
			}
		}
		e.Close()
	}
	if tsFirst != nil {
		if tsHits < 2 {
			fmt.Fprintf(os.Stderr, "harness failure: a route difference did not reproduce (its class showed in 1 of %d executions): %s\n", execs, tsFirst.What)
			return 2
		}
		tsFirst.What = fmt.Sprintf("%s in %d of %d executions%s", tsClass, tsHits, execs, strings.TrimPrefix(tsFirst.What, tsClass))
		res.Mismatches = append(res.Mismatches, *tsFirst)
	}
	b, _ := json.Marshal(res)
	if err := os.WriteFile(*resOut, b, 0o644); err != nil {
		fmt.Fprintln(os.Stderr, err)
		return 2
	}
	return 0
}

// replayArgs re-executes the calls of a behaviour (arguments only) and the routes; returns the route difference.
func replayArgs(beh []m.Step) string {
	e, err := m.NewLeaderEngine()
	if err != nil {
		return ""
	}
	defer e.Close()
	var done []m.Step
	for i := range beh {
		if beh[i].A == "Routes" {
			what, _, _ := compareRoutes(e, nil, demandedOf(done, finalOf(&beh[i], done)), beh[i].Off, beh[i].Ts)
			return what
		}
		st := argsOf(&beh[i])
		_ = m.Exec(e, &st, keyPool)
		done = append(done, st)
	}
	return ""
}

func cmdRerun(args []string) int {
	fs := flag.NewFlagSet("rerun", flag.ExitOnError)
	in := fs.String("in", "", "replay json")
	out := fs.String("out", "trace.ndjson", "")
	resOut := fs.String("res", "", "result json")
	_ = fs.Parse(args)
	m.Quiet()
	b, err := os.ReadFile(*in)
	if err != nil {
		fmt.Fprintln(os.Stderr, err)
		return 2
	}
	var mm mismatch
	if err := json.Unmarshal(b, &mm); err != nil {
		fmt.Fprintln(os.Stderr, err)
		return 2
	}
	if mm.Chunk > 0 {
		kv.MaxSnapshotChunkSize = mm.Chunk
	}
	f, err := os.Create(*out)
	if err != nil {
		fmt.Fprintln(os.Stderr, err)
		return 2
	}
	defer f.Close()
	enc := json.NewEncoder(f)
	reset := m.Step{A: "Reset", Off: -1, Lv: -1}
	reset.Normalize()
	_ = enc.Encode(&reset)
	e, err := m.NewLeaderEngine()
	if err != nil {
		fmt.Fprintln(os.Stderr, err)
		return 2
	}
	defer e.Close()
	var res result
	var done []m.Step
	probeKeys := m.KeysOf(mm.Behaviour)
	for i := range mm.Behaviour {
		want := &mm.Behaviour[i]
		if want.A == "Routes" {
			dem := demandedOf(mm.Behaviour[:i], want)
			if final := finalOf(want, done); final != want {
				dem = demandedOf(done, final)
			}
			what, encd, herr := compareRoutes(e, nil, dem, want.Off, want.Ts)
			if herr != nil {
				fmt.Fprintln(os.Stderr, "harness failure:", herr)
				return 2
			}
			res.Routes++
			res.EncDiffs += encd
			if what != "" {
				res.Mismatches = append(res.Mismatches, mismatch{Kind: "routes", Step: i, What: what, Cut: want.Off, Lag: want.Ts})
			}
			break
		}
		st := argsOf(want)
		if problems := m.Exec(e, &st, probeKeys); len(problems) > 0 {
			st.Err = "INCONSISTENT: " + strings.Join(problems, "; ")
		}
		st.Normalize()
		_ = enc.Encode(&st)
		done = append(done, st)
		if st.Err != "" && st.Err != "REJECTED" {
			break
		}
	}
	rb, _ := json.Marshal(res)
	if err := os.WriteFile(*resOut, rb, 0o644); err != nil {
		fmt.Fprintln(os.Stderr, err)
		return 2
	}
	return 0
}

// ---------------------------------------------------------------- live leader, replication factor 3

type groupOut struct {
	noTrace bool // the lines are the log only (not a recording TLC can judge)
	lines   []m.Step
	entries int
	what    string
	err     error
}

// liveGroup: one shard (leader + two followers), the requests issued by concurrent writers; returns the
// recording for DbLogTrace and the difference between the leader's dump and the in-order replay of its log.
func liveGroup(mine []*proto.WriteRequest, writers int, record bool) (o groupOut) {
	r, err := m.NewRF3()
	if err != nil {
		o.err = err
		return o
	}
	defer r.Close()
	if failed, first := r.WriteAll(mine, writers); failed > 0 {
		o.err = fmt.Errorf("%d of %d writes failed, first: %v", failed, len(mine), first)
		return o
	}
	entries, err := r.LogEntries()
	if err != nil {
		o.err = fmt.Errorf("reading the leader's log: %v", err)
		return o
	}
	if len(entries) != len(mine) {
		o.err = fmt.Errorf("the leader's log holds %d entries, %d requests were answered", len(entries), len(mine))
		return o
	}
	// the same log replayed in order by a fresh leader
	live, err := r.LiveDump()
	if err != nil {
		o.err = err
		return o
	}
	r.SetNext(len(entries))
	if rd, err := r.ReplayedFromWal(); err != nil {
		o.what = "route wal (new leader replaying the log of the RF=3 leader in order): " + err.Error()
	} else {
		o.what, _ = m.DiffDumps(live, rd, "leader (applied live, entries committed by the acks of two followers)", "leader replaying the same log in order")
	}
	if !record {
		return o
	}
	r.LogicalTimes(entries)
	tm := r.TsMap()
	o.entries = len(entries)
	o.lines = append(o.lines, m.Step{A: "Reset", Off: -1, Lv: -1})
	for _, le := range entries {
		ws, err := m.EntryRequests(le)
		if err == nil && len(ws) != 1 {
			err = fmt.Errorf("log entry %d holds %d write requests", le.Offset, len(ws))
		}
		if err != nil {
			o.err = err
			return o
		}
		o.lines = append(o.lines, m.Step{A: "Entry", Off: int(le.Offset), Ts: tm(le.Timestamp), Req: m.ReqFromProto(ws[0])})
	}
	// the notification batch the leader serves for every offset, the state it exposes (when the dumps already
	// differ, trouble in reading the leader is not the harness's: the log alone is kept for the replay file)
	for i, le := range entries {
		nb, err := r.Notifications(int(le.Offset))
		if err != nil {
			if o.what == "" {
				o.err = err
			}
			o.noTrace = true
			return o
		}
		line := &o.lines[i+1]
		line.Nf = m.NotifsFromProto(nb)
		if nb.Offset != le.Offset || nb.Timestamp != le.Timestamp {
			line.Err = fmt.Sprintf("INCONSISTENT: the notification batch served for offset %d carries offset %d and timestamp %d, the entry has timestamp %d",
				le.Offset, nb.Offset, nb.Timestamp, le.Timestamp)
		}
	}
	state := m.Step{A: "State", Off: -1}
	if problems := m.Observe(r.LeaderEngine, &state, nil); len(problems) > 0 {
		state.Err = "INCONSISTENT: " + strings.Join(problems, "; ")
	}
	o.lines = append(o.lines, state)
	return o
}

// cmdLive: the write requests of the behaviours TLC drew (OxiaDbBlocks: overlapping keys, conditional puts,
// bulk requests that take long to apply next to small ones) are issued by concurrent writers to a real
// leader whose entries are committed by the racing acknowledgements of two real followers.  The leader's
// log and the state it exposes afterwards are recorded for DbLogTrace.tla (TLC folds Apply over the log);
// the same log is replayed in order by a fresh leader and the two dumps are compared.
func cmdLive(args []string) int {
	fs := flag.NewFlagSet("live", flag.ExitOnError)
	in := fs.String("in", "", "ndjson of behaviours (their write requests are used)")
	out := fs.String("out", "trace.ndjson", "")
	resOut := fs.String("res", "", "result json")
	groups := fs.Int("groups", 4, "independent shards (each gets a share of the requests)")
	writers := fs.Int("writers", 4, "concurrent writers per shard")
	maxReqs := fs.Int("max", 2000, "requests used at most")
	_ = fs.Parse(args)
	m.Quiet()
	f, err := os.Open(*in)
	if err != nil {
		fmt.Fprintln(os.Stderr, err)
		return 2
	}
	sc := bufio.NewScanner(f)
	sc.Buffer(make([]byte, 1<<20), 1<<28)
	var reqs []m.Req
	seen := map[string]bool{}
	for sc.Scan() && len(reqs) < *maxReqs {
		var beh []m.Step
		if len(sc.Bytes()) == 0 {
			continue
		}
		if err := json.Unmarshal(sc.Bytes(), &beh); err != nil {
			fmt.Fprintln(os.Stderr, "bad behaviour line:", err)
			return 2
		}
		for i := range beh {
			if (beh[i].A != "Write" && beh[i].A != "Entry") || beh[i].Err != "" || !m.WellFormed(&beh[i].Req) {
				continue
			}
			kb, _ := json.Marshal(beh[i].Req)
			if seen[string(kb)] {
				continue
			}
			seen[string(kb)] = true
			reqs = append(reqs, beh[i].Req)
		}
	}
	f.Close()
	outs := make([]groupOut, *groups)
	var wg sync.WaitGroup
	for g := 0; g < *groups; g++ {
		wg.Add(1)
		go func(g int) {
			defer wg.Done()
			var mine []*proto.WriteRequest
			for i := g; i < len(reqs); i += *groups {
				mine = append(mine, reqs[i].Proto())
			}
			if len(mine) == 0 {
				return
			}
			outs[g] = liveGroup(mine, *writers, true)
			if outs[g].err != nil || outs[g].what == "" {
				return
			}
			// a difference is reported when one shows again on re-execution (the interleaving is the scheduler's, a
			// clock tick falls where it falls: three more rounds of the same requests, up to five when none shows)
			again, tries := 0, 0
			for tries < 3 || (again == 0 && tries < 5) {
				tries++
				if o2 := liveGroup(mine, *writers, false); o2.err == nil && o2.what != "" {
					again++
				}
			}
			if again == 0 {
				outs[g].err = fmt.Errorf("a difference between the live leader and the replay of its log did not show again in %d re-executions: %s", tries, outs[g].what)
				return
			}
			outs[g].what += fmt.Sprintf(" (a difference showed again in %d of %d re-executions of the same requests)", again, tries)
		}(g)
	}
	wg.Wait()
	fo, err := os.Create(*out)
	if err != nil {
		fmt.Fprintln(os.Stderr, err)
		return 2
	}
	defer fo.Close()
	w := bufio.NewWriterSize(fo, 1<<20)
	defer w.Flush()
	enc := json.NewEncoder(w)
	var res result
	for g := range outs {
		if outs[g].err != nil {
			fmt.Fprintln(os.Stderr, "harness failure:", outs[g].err)
			return 2
		}
		for i := range outs[g].lines {
			outs[g].lines[i].Normalize()
			if !outs[g].noTrace {
				_ = enc.Encode(&outs[g].lines[i])
			}
		}
		if len(outs[g].lines) > 0 {
			res.Sequences++
		}
		res.Steps += outs[g].entries
		if outs[g].what != "" {
			res.Bad++
			res.Mismatches = append(res.Mismatches, mismatch{Mode: "rf3", Kind: "live", Behaviour: outs[g].lines, Step: len(outs[g].lines) - 1, What: outs[g].what})
		}
	}
	b, _ := json.Marshal(res)
	if err := os.WriteFile(*resOut, b, 0o644); err != nil {
		fmt.Fprintln(os.Stderr, err)
		return 2
	}
	return 0
}

// ---------------------------------------------------------------- crash points of the storage engine

// crashOne runs one sequence on a reference kv.DB (compared step by step with what OxiaDb.tla demands) and on
// a kv.DB whose engine reports every batch commit; every crash image (see dbmodel/crash.go) is opened by a
// fresh kv.DB and must be (a) the reference after the entries 0..c, c = the commit offset stored in the
// image, and (b) the reference after the whole log once the entries c+1.. were applied to it.
func crashOne(beh []m.Step) (mm *mismatch, images int, harness error) {
	ref, err := m.NewDBEngine()
	if err != nil {
		return nil, 0, err
	}
	defer ref.Close()
	cr, err := m.NewCrashDB()
	if err != nil {
		return nil, 0, err
	}
	defer cr.Close()
	type entry struct {
		req m.Req
		ts  int
	}
	var log []entry
	dumps := map[int][]m.DumpEntry{}
	if dumps[-1], err = m.DumpDB(ref.DB()); err != nil {
		return nil, 0, err
	}
	probeKeys := m.KeysOf(beh)
	done := 0
	fail := func(i int, what string) *mismatch {
		return &mismatch{Mode: "db", Kind: "crash", Behaviour: beh[:i+1], Step: i, What: what}
	}
	for i := range beh {
		want := &beh[i]
		if want.A == "Routes" {
			break
		}
		done = i
		if want.A == "Write" && !m.WellFormed(&want.Req) {
			continue // refused by the leader before logging
		}
		got := argsOf(want)
		problems := m.Exec(ref, &got, probeKeys)
		got.Normalize()
		for _, p := range problems {
			if strings.HasPrefix(p, "harness:") {
				return nil, 0, fmt.Errorf("%s", p)
			}
		}
		if len(problems) > 0 {
			return fail(i, "read paths of the reference database disagree: "+strings.Join(problems, "; ")), 0, nil
		}
		if want.Kf {
			break
		}
		if d := m.Diff(want, &got, scope); d != "" {
			return fail(i, "reference kv.DB deviates from OxiaDb.tla: "+d), 0, nil
		}
		if want.A == "Restart" {
			if err := cr.Restart(); err != nil {
				return fail(i, "restart of the database under crash observation: "+err.Error()), 0, nil
			}
			continue
		}
		if err := cr.Apply(want.Req.Proto(), got.Off, want.Ts); err != nil {
			return fail(i, fmt.Sprintf("applying entry %d to the database under crash observation: %v", got.Off, err)), 0, nil
		}
		if got.Off != len(log) {
			return nil, 0, fmt.Errorf("harness: entry got offset %d, %d entries applied", got.Off, len(log))
		}
		log = append(log, entry{want.Req, want.Ts})
		if dumps[got.Off], err = m.DumpDB(ref.DB()); err != nil {
			return nil, 0, err
		}
	}
	n := len(log)
	if n == 0 {
		return nil, 0, nil
	}
	last := dumps[n-1]
	for _, img := range cr.Images {
		images++
		what, err := func() (string, error) {
			db, closeAll, err := m.OpenImage(img)
			if err != nil {
				return "the database does not open: " + err.Error(), nil
			}
			defer closeAll()
			c64, err := db.ReadCommitOffset()
			if err != nil {
				return "the commit offset cannot be read: " + err.Error(), nil
			}
			c := int(c64)
			want, ok := dumps[c]
			if !ok {
				return fmt.Sprintf("the database stores commit offset %d, the log has the entries 0..%d", c, n-1), nil
			}
			d, err := m.DumpDB(db)
			if err != nil {
				return "", err
			}
			name := fmt.Sprintf("the entries 0..%d applied once each", c)
			if c < 0 {
				name = "an empty database (no entry applied)"
			}
			if w, _ := m.DiffDumps(want, d, name, fmt.Sprintf("the crash image (stored commit offset %d)", c)); w != "" {
				return "the database is not the result of applying the entries up to its commit offset: " + w, nil
			}
			for o := c + 1; o < n; o++ {
				if err := m.ApplyTo(db, log[o].req.Proto(), o, log[o].ts); err != nil {
					return fmt.Sprintf("replay of entry %d after the restart: %v", o, err), nil
				}
			}
			if d, err = m.DumpDB(db); err != nil {
				return "", err
			}
			if w, _ := m.DiffDumps(last, d, fmt.Sprintf("the whole log (entries 0..%d) applied once each", n-1),
				fmt.Sprintf("the crash image after restart and replay from offset %d", c+1)); w != "" {
				return "after restart and replay the database is not the result of applying the log: " + w, nil
			}
			return "", nil
		}()
		if err != nil {
			return nil, images, err
		}
		if what != "" {
			return fail(done, fmt.Sprintf("crash right after batch commit #%d (made while entry %d was applied; flushed): %s", img.Commit, img.During, what)), images, nil
		}
	}
	// the observed database itself (nothing crashed) is the reference
	d, err := m.DumpDB(cr.DB())
	if err != nil {
		return nil, images, err
	}
	if w, _ := m.DiffDumps(last, d, "reference", "database created through the commit-reporting factory"); w != "" {
		return nil, images, fmt.Errorf("harness: the commit-reporting factory is not transparent: %s", w)
	}
	return nil, images, nil
}

func cmdCrashpoints(args []string) int {
	fs := flag.NewFlagSet("crashpoints", flag.ExitOnError)
	in := fs.String("in", "", "ndjson of behaviours")
	out := fs.String("out", "", "result json")
	workers := fs.Int("workers", 8, "")
	maxSeq := fs.Int("max", 0, "sequences used at most (0: all)")
	maxBad := fs.Int("maxbad", 25, "")
	_ = fs.Parse(args)
	m.Quiet()
	f, err := os.Open(*in)
	if err != nil {
		fmt.Fprintln(os.Stderr, err)
		return 2
	}
	defer f.Close()
	sc := bufio.NewScanner(f)
	sc.Buffer(make([]byte, 1<<20), 1<<28)
	var seqs [][]m.Step
	seenSeq := map[string]bool{}
	nLines := 0
	for sc.Scan() {
		if len(sc.Bytes()) == 0 {
			continue
		}
		nLines++
		var beh []m.Step
		if err := json.Unmarshal(sc.Bytes(), &beh); err != nil {
			fmt.Fprintln(os.Stderr, "bad behaviour line:", err)
			return 2
		}
		for len(beh) > 0 && beh[len(beh)-1].A == "Routes" {
			beh = beh[:len(beh)-1]
		}
		kb, _ := json.Marshal(beh)
		if len(beh) == 0 || seenSeq[string(kb)] {
			continue
		}
		seenSeq[string(kb)] = true
		if *maxSeq == 0 || len(seqs) < *maxSeq {
			seqs = append(seqs, beh)
		}
	}
	var res result
	var mu sync.Mutex
	var harnessErr error
	bad := 0
	seen := map[string]bool{}
	jobs := make(chan []m.Step, len(seqs))
	for _, b := range seqs {
		jobs <- b
	}
	close(jobs)
	var wg sync.WaitGroup
	for w := 0; w < *workers; w++ {
		wg.Add(1)
		go func() {
			defer wg.Done()
			for beh := range jobs {
				mu.Lock()
				stop := bad >= *maxBad || harnessErr != nil
				mu.Unlock()
				if stop {
					continue
				}
				mm, images, herr := crashOne(beh)
				if mm != nil && herr == nil {
					// deterministic: a deviation must show again
					if mm2, _, herr2 := crashOne(beh); herr2 != nil || mm2 == nil {
						herr = fmt.Errorf("a deviation did not show again on re-execution: %s", mm.What)
					}
				}
				mu.Lock()
				res.Steps += len(beh)
				res.Routes += images
				if herr != nil && harnessErr == nil {
					harnessErr = herr
				}
				if mm != nil && herr == nil {
					bad++
					if c := classOf(mm.What); !seen[c] {
						seen[c] = true
						res.Mismatches = append(res.Mismatches, *mm)
					}
				}
				mu.Unlock()
			}
		}()
	}
	wg.Wait()
	if harnessErr != nil {
		fmt.Fprintln(os.Stderr, "harness failure:", harnessErr)
		return 2
	}
	res.Behaviours = nLines
	res.Sequences = len(seqs)
	res.Bad = bad
	b, _ := json.Marshal(res)
	if err := os.WriteFile(*out, b, 0o644); err != nil {
		fmt.Fprintln(os.Stderr, err)
		return 2
	}
	return 0
}

func main() {
	if len(os.Args) < 2 {
		fmt.Fprintln(os.Stderr, "usage: routecheck replay|drive|rerun|live|crashpoints|trimreplay ...")
		os.Exit(2)
	}
	switch os.Args[1] {
	case "replay":
		os.Exit(cmdReplay(os.Args[2:]))
	case "drive":
		os.Exit(cmdDrive(os.Args[2:]))
	case "rerun":
		os.Exit(cmdRerun(os.Args[2:]))
	case "live":
		os.Exit(cmdLive(os.Args[2:]))
	case "crashpoints":
		os.Exit(cmdCrashpoints(os.Args[2:]))
	case "trimreplay":
		os.Exit(cmdTrimReplay(os.Args[2:]))
	}
	os.Exit(2)
}
