// Package cluster runs real Oxia storage nodes (shards directors with real WAL and Pebble DB) on an
// in-process virtual wire whose every message delivery is decided by a scheduler, so that behaviours
// chosen by TLC can be executed step by step on the real code.
package cluster

import (
	"context"
	"errors"
	"fmt"
	"io"
	"sync"

	"google.golang.org/grpc/metadata"

	"github.com/oxia-db/oxia/common/constant"
	"github.com/oxia-db/oxia/proto"
)

var ErrWire = errors.New("verif wire: connection lost")

type baseStream struct{ ctx context.Context }

func (b *baseStream) SendHeader(metadata.MD) error { return nil }
func (b *baseStream) SetHeader(metadata.MD) error  { return nil }
func (b *baseStream) SetTrailer(metadata.MD)       {}
func (b *baseStream) Header() (metadata.MD, error) { return nil, nil }
func (b *baseStream) Trailer() metadata.MD         { return nil }
func (b *baseStream) RecvMsg(any) error            { return nil }
func (b *baseStream) SendMsg(any) error            { return nil }
func (b *baseStream) Context() context.Context     { return b.ctx }
func (b *baseStream) CloseSend() error             { return nil }

// VStream is one Replicate stream between a leader's cursor and a follower. Messages sit in the
// queues until the scheduler delivers them.
type VStream struct {
	sim      *Sim
	Leader   string
	Follower string
	Term     int64
	ID       int

	mu       sync.Mutex
	app      []*proto.Append // sent by the cursor, not yet delivered to the follower
	ack      []*proto.Ack    // sent by the follower, not yet delivered to the cursor
	toF      chan *proto.Append
	toL      chan *proto.Ack
	closed   bool
	ctx      context.Context // follower side context
	cancel   context.CancelFunc
	lctx     context.Context // leader side context (given by the cursor)
	done     chan struct{}   // closed when the follower side handler returned
	srvErr   error
	recvWait int // number of times the follower handler asked for the next message
}

type vclient struct {
	baseStream
	s *VStream
}

func (c *vclient) Send(a *proto.Append) error {
	if c.s.sim.auto.Load() {
		select {
		case c.s.toF <- a:
			return nil
		case <-c.s.ctx.Done():
			return ErrWire
		case <-c.ctx.Done():
			return c.ctx.Err()
		}
	}
	c.s.mu.Lock()
	if c.s.closed {
		c.s.mu.Unlock()
		return ErrWire
	}
	c.s.app = append(c.s.app, a)
	c.s.mu.Unlock()
	c.s.sim.bump()
	return nil
}

func (c *vclient) Recv() (*proto.Ack, error) {
	select {
	case a := <-c.s.toL:
		return a, nil
	case <-c.s.ctx.Done():
		return nil, ErrWire
	case <-c.ctx.Done():
		return nil, c.ctx.Err()
	}
}

func (c *vclient) CloseSend() error {
	c.s.close()
	return nil
}

type vserver struct {
	baseStream
	s *VStream
}

func (v *vserver) Send(a *proto.Ack) error {
	if v.s.sim.auto.Load() {
		select {
		case v.s.toL <- a:
			return nil
		case <-v.s.ctx.Done():
			return ErrWire
		}
	}
	v.s.mu.Lock()
	if v.s.closed {
		v.s.mu.Unlock()
		return ErrWire
	}
	v.s.ack = append(v.s.ack, a)
	v.s.mu.Unlock()
	v.s.sim.bump()
	return nil
}

func (v *vserver) Recv() (*proto.Append, error) {
	v.s.mu.Lock()
	v.s.recvWait++
	v.s.mu.Unlock()
	v.s.sim.bump()
	select {
	case a := <-v.s.toF:
		return a, nil
	case <-v.s.ctx.Done():
		return nil, io.EOF
	}
}

func (s *VStream) close() {
	s.mu.Lock()
	if !s.closed {
		s.closed = true
		s.cancel()
	}
	s.mu.Unlock()
	s.sim.bump()
}

func (s *VStream) Closed() bool {
	s.mu.Lock()
	defer s.mu.Unlock()
	return s.closed
}

// Queues returns copies of the two queues (offset, term, commit of appends; offsets of acks).
func (s *VStream) Queues() (app [][3]int64, ack []int64) {
	s.mu.Lock()
	defer s.mu.Unlock()
	for _, a := range s.app {
		app = append(app, [3]int64{a.Entry.Offset, a.Term, a.CommitOffset})
	}
	for _, a := range s.ack {
		ack = append(ack, a.Offset)
	}
	return
}

func incomingCtx(ctx context.Context, ns string, shard, term int64) context.Context {
	return metadata.NewIncomingContext(ctx, metadata.Pairs(
		constant.MetadataNamespace, ns,
		constant.MetadataShardId, fmt.Sprintf("%d", shard),
		constant.MetadataTerm, fmt.Sprintf("%d", term)))
}

// provider is the ReplicationRpcProvider handed to one node's shards director.
type provider struct {
	sim  *Sim
	self string
	gen  int // incarnation of the node this provider belongs to
}

func (p *provider) alive() bool {
	n := p.sim.node(p.self)
	n.mu.Lock()
	defer n.mu.Unlock()
	return n.up && n.gen == p.gen
}

func (p *provider) Close() error { return nil }

// GetReplicateStream parks the calling cursor until the scheduler performs CursorConnect(self, follower).
func (p *provider) GetReplicateStream(ctx context.Context, follower string, ns string, shard int64, term int64) (proto.OxiaLogReplication_ReplicateClient, error) {
	if !p.alive() {
		<-ctx.Done()
		return nil, ctx.Err()
	}
	if err := p.sim.park(ctx, "connect", p.self, follower); err != nil {
		return nil, err
	}
	if !p.alive() {
		return nil, ErrWire
	}
	f := p.sim.node(follower)
	if f == nil || !f.isUp() {
		return nil, ErrWire
	}
	sctx, cancel := context.WithCancel(context.Background())
	s := &VStream{sim: p.sim, Leader: p.self, Follower: follower, Term: term,
		toF: make(chan *proto.Append), toL: make(chan *proto.Ack), cancel: cancel, lctx: ctx, done: make(chan struct{})}
	s.ctx = incomingCtx(sctx, ns, shard, term)
	p.sim.addStream(s)
	rpc := f.rpc
	go func() {
		s.srvErr = rpc.Replicate(&vserver{baseStream{s.ctx}, s})
		close(s.done)
		s.close()
	}()
	// the cursor's context ends the stream too
	go func() {
		select {
		case <-ctx.Done():
			s.close()
		case <-sctx.Done():
		}
	}()
	return &vclient{baseStream{ctx}, s}, nil
}

func (p *provider) Truncate(follower string, req *proto.TruncateRequest) (*proto.TruncateResponse, error) {
	f := p.sim.node(follower)
	if f == nil || !f.isUp() || !p.alive() {
		return nil, ErrWire
	}
	p.sim.note("truncate", p.self, follower, req.HeadEntryId.Term, req.HeadEntryId.Offset)
	return f.rpc.Truncate(context.Background(), req)
}

// ---- snapshot stream: parked like a connect, then a straight pipe
type snapClient struct {
	baseStream
	chunks chan *proto.SnapshotChunk
	resp   chan *proto.SnapshotResponse
	srvErr chan error
	cancel context.CancelFunc
}

func (c *snapClient) Send(ch *proto.SnapshotChunk) error {
	select {
	case c.chunks <- ch:
		return nil
	case err := <-c.srvErr:
		if err == nil {
			err = ErrWire
		}
		return err
	case <-c.ctx.Done():
		return c.ctx.Err()
	}
}

func (c *snapClient) CloseAndRecv() (*proto.SnapshotResponse, error) {
	close(c.chunks)
	select {
	case r := <-c.resp:
		return r, nil
	case err := <-c.srvErr:
		if err == nil {
			err = ErrWire
		}
		return nil, err
	case <-c.ctx.Done():
		return nil, c.ctx.Err()
	}
}

type snapServer struct {
	baseStream
	c *snapClient
}

func (s *snapServer) Recv() (*proto.SnapshotChunk, error) {
	select {
	case ch, ok := <-s.c.chunks:
		if !ok {
			return nil, io.EOF
		}
		return ch, nil
	case <-s.ctx.Done():
		return nil, s.ctx.Err()
	}
}

func (s *snapServer) SendAndClose(r *proto.SnapshotResponse) error {
	s.c.resp <- r
	return nil
}

func (p *provider) SendSnapshot(ctx context.Context, follower string, ns string, shard int64, term int64) (proto.OxiaLogReplication_SendSnapshotClient, error) {
	if !p.alive() {
		<-ctx.Done()
		return nil, ctx.Err()
	}
	if err := p.sim.park(ctx, "snapshot", p.self, follower); err != nil {
		return nil, err
	}
	if !p.alive() {
		return nil, ErrWire
	}
	f := p.sim.node(follower)
	if f == nil || !f.isUp() {
		return nil, ErrWire
	}
	cctx, cancel := context.WithCancel(ctx)
	c := &snapClient{baseStream: baseStream{cctx}, chunks: make(chan *proto.SnapshotChunk, 16),
		resp: make(chan *proto.SnapshotResponse, 1), srvErr: make(chan error, 1), cancel: cancel}
	rpc := f.rpc
	go func() {
		err := rpc.SendSnapshot(&snapServer{baseStream{incomingCtx(cctx, ns, shard, term)}, c})
		c.srvErr <- err
		p.sim.bump()
	}()
	return c, nil
}
