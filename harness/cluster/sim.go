package cluster

import (
	"strconv"
	"context"
	"encoding/json"
	"fmt"
	"os"
	"os/exec"
	"path/filepath"
	"sort"
	"strings"
	"sync"
	"sync/atomic"
	"time"

	pb "google.golang.org/protobuf/proto"

	"github.com/oxia-db/oxia/common/concurrent"
	"github.com/oxia-db/oxia/proto"
	"github.com/oxia-db/oxia/server"
	"github.com/oxia-db/oxia/server/kv"
	"github.com/oxia-db/oxia/server/wal"
)

const Namespace = "default"
const Shard = int64(0)

type Node struct {
	Name   string
	walDir string
	dbDir  string
	mu     sync.Mutex
	up     bool
	dir    server.ShardsDirector
	rpc    server.VerifInternalRpc
	kvf    kv.Factory
	wf     wal.Factory
	gen    int
	dead   []string // WAL directories of crashed incarnations
}

func (n *Node) isUp() bool { n.mu.Lock(); defer n.mu.Unlock(); return n.up }

type parked struct {
	kind     string // "connect", "snapshot", "sync"
	from, to string
	release  chan struct{}
	fail     bool // released with an injected connection error
}

// Write is one client write issued through a leader controller.
type Write struct {
	Idx    int
	Node   string
	Val    string
	Done   bool
	Err    string
	Offset int64
	cancel context.CancelFunc
}

type Sim struct {
	base string
	mu   sync.Mutex
	cond *sync.Cond
	gen  uint64

	nodes   map[string]*Node
	names   []string
	parkedL []*parked
	streams map[string]*VStream // "l>f" -> current stream
	nstream int
	writes  []*Write
	notes   []string
	bl      map[string]*blCall // running BecomeLeader calls by node

	writeGateOn atomic.Bool
	auto        atomic.Bool // free-running: nothing is parked, the wire delivers at once
}

// SetAuto switches the free-running mode (stress runs recorded for trace validation)
func (s *Sim) SetAuto(on bool) { s.auto.Store(on) }

// TermBase shifts the real terms: specification term t (1-based, 0 = none) is real term t-1+TermBase.
// With TermBase = 0 the first term is the real term 0, which protobuf omits from the encoding: records of
// that term are shorter than all later ones. VERIF_TERMBASE selects another base.
var TermBase = func() int64 { v, _ := strconv.ParseInt(os.Getenv("VERIF_TERMBASE"), 10, 64); return v }()

// TermToReal / TermToSpec convert between the numberings
func TermToReal(t int64) int64 {
	if t <= 0 {
		return -1
	}
	return t - 1 + TermBase
}

func TermToSpec(r int64) int64 {
	if r < 0 {
		return 0
	}
	return r - TermBase + 1
}

type blCall struct {
	done   chan struct{}
	err    error
	cancel context.CancelFunc
}

var current *Sim

// writeGate parks a leader's writer between offset allocation and WAL append (only while the
// scheduler asked for it)
func writeGate(shard int64, offset int64) {
	s := current
	if s == nil || !s.writeGateOn.Load() {
		return
	}
	_ = s.park(context.Background(), "write", "*", fmt.Sprint(offset))
}

// WriteGate switches the writer gate on or off
func (s *Sim) WriteGate(on bool) { s.writeGateOn.Store(on) }

// ParkedWriters returns the offsets of the writers waiting at the gate
func (s *Sim) ParkedWriters() []int64 {
	s.mu.Lock()
	defer s.mu.Unlock()
	var out []int64
	for _, p := range s.parkedL {
		if p.kind == "write" {
			var o int64
			fmt.Sscan(p.to, &o)
			out = append(out, o)
		}
	}
	sort.Slice(out, func(i, j int) bool { return out[i] < out[j] })
	return out
}

func syncGate(walPath string, lastAppended, lastSynced int64) {
	s := current
	if s == nil || lastAppended == lastSynced {
		return // nothing to flush: not a scheduling point
	}
	for _, n := range s.nodes {
		n.mu.Lock()
		cur := n.walDir
		n.mu.Unlock()
		if strings.HasPrefix(walPath, cur+string(filepath.Separator)) {
			_ = s.park(context.Background(), "sync", n.Name, n.Name)
			return
		}
	}
	// a WAL of a crashed incarnation: its goroutines are abandoned
	select {}
}

func New(names []string) (*Sim, error) {
	base := "/dev/shm"
	if _, err := os.Stat(base); err != nil {
		base = ""
	}
	dir, err := os.MkdirTemp(base, "shardsim")
	if err != nil {
		return nil, err
	}
	s := &Sim{base: dir, nodes: map[string]*Node{}, names: names, streams: map[string]*VStream{}, bl: map[string]*blCall{}}
	s.cond = sync.NewCond(&s.mu)
	current = s
	wal.VerifSyncGate = syncGate
	server.VerifWriteGate = writeGate
	for _, name := range names {
		n := &Node{Name: name, walDir: filepath.Join(dir, name, "wal"), dbDir: filepath.Join(dir, name, "db")}
		s.nodes[name] = n
		if err := s.start(n); err != nil {
			return nil, err
		}
	}
	return s, nil
}

func (s *Sim) start(n *Node) error {
	kvf, err := kv.NewPebbleKVFactory(&kv.FactoryOptions{DataDir: n.dbDir, CacheSizeMB: 1})
	if err != nil {
		return err
	}
	wf := wal.NewWalFactory(&wal.FactoryOptions{BaseWalDir: n.walDir, SegmentSize: 1 << 16, SyncData: true, Retention: time.Hour})
	n.mu.Lock()
	n.kvf, n.wf = kvf, wf
	n.dir = server.NewShardsDirector(server.Config{NotificationsRetentionTime: time.Hour}, wf, kvf, &provider{sim: s, self: n.Name, gen: n.gen})
	n.rpc = server.VerifNewInternalRpc(n.dir)
	n.up = true
	n.mu.Unlock()
	return nil
}

func (s *Sim) Close() {
	current = nil
	// cursors waiting to connect get a connection error; sync rounds stay parked for ever (their
	// goroutines hold nothing); streams are closed before the controllers
	s.mu.Lock()
	var keep []*parked
	for _, p := range s.parkedL {
		if p.kind == "sync" {
			keep = append(keep, p)
			continue
		}
		p.fail = true
		close(p.release)
	}
	s.parkedL = keep
	var sts []*VStream
	for _, st := range s.streams {
		sts = append(sts, st)
	}
	for _, c := range s.bl {
		c.cancel()
	}
	s.mu.Unlock()
	for _, st := range sts {
		st.close()
	}
	for _, st := range sts {
		select {
		case <-st.done:
		case <-time.After(2 * time.Second):
		}
	}
	time.Sleep(5 * time.Millisecond)
	done := make(chan struct{})
	go func() {
		for _, n := range s.nodes {
			if n.isUp() {
				_ = n.dir.Close()
				_ = n.kvf.Close()
			}
		}
		close(done)
	}()
	select {
	case <-done:
	case <-time.After(5 * time.Second):
	}
	_ = os.RemoveAll(s.base)
}

func (s *Sim) node(name string) *Node { return s.nodes[name] }

func (s *Sim) bump() {
	s.mu.Lock()
	s.gen++
	s.mu.Unlock()
	s.cond.Broadcast()
}

func (s *Sim) note(kind, from, to string, a, b int64) {
	s.mu.Lock()
	s.notes = append(s.notes, fmt.Sprintf("%s %s->%s %d %d", kind, from, to, a, b))
	s.mu.Unlock()
}

// park blocks the caller until the scheduler releases the gate (or ctx ends).
func (s *Sim) park(ctx context.Context, kind, from, to string) error {
	if s.auto.Load() {
		return nil
	}
	p := &parked{kind: kind, from: from, to: to, release: make(chan struct{})}
	s.mu.Lock()
	s.parkedL = append(s.parkedL, p)
	s.gen++
	s.mu.Unlock()
	s.cond.Broadcast()
	select {
	case <-p.release:
		if p.fail {
			return ErrWire
		}
		return nil
	case <-ctx.Done():
		s.mu.Lock()
		for i, q := range s.parkedL {
			if q == p {
				s.parkedL = append(s.parkedL[:i], s.parkedL[i+1:]...)
				break
			}
		}
		s.gen++
		s.mu.Unlock()
		s.cond.Broadcast()
		return ctx.Err()
	}
}

func (s *Sim) findParked(kind, from, to string) *parked {
	for _, p := range s.parkedL {
		if p.kind == kind && p.from == from && p.to == to {
			return p
		}
	}
	return nil
}

// Release opens a gate; it waits (up to d) for the goroutine to arrive at it.
func (s *Sim) Release(kind, from, to string, d time.Duration) error {
	deadline := time.Now().Add(d)
	s.mu.Lock()
	defer s.mu.Unlock()
	for {
		if p := s.findParked(kind, from, to); p != nil {
			for i, q := range s.parkedL {
				if q == p {
					s.parkedL = append(s.parkedL[:i], s.parkedL[i+1:]...)
					break
				}
			}
			close(p.release)
			return nil
		}
		// The cursor decides between streaming and sending a snapshot when it (re)starts. If it is
		// waiting to connect with a stale decision, one failed connection attempt (a behaviour of
		// the network that the specification abstracts from) makes it decide again.
		if kind == "snapshot" {
			if q := s.findParked("connect", from, to); q != nil {
				for i, x := range s.parkedL {
					if x == q {
						s.parkedL = append(s.parkedL[:i], s.parkedL[i+1:]...)
						break
					}
				}
				q.fail = true
				close(q.release)
			}
		}
		if time.Now().After(deadline) {
			return fmt.Errorf("nothing parked at %s %s->%s", kind, from, to)
		}
		s.waitLocked(50 * time.Millisecond)
	}
}

func (s *Sim) IsParked(kind, from, to string) bool {
	s.mu.Lock()
	defer s.mu.Unlock()
	return s.findParked(kind, from, to) != nil
}

// waitLocked waits for a state change or the timeout; s.mu must be held.
func (s *Sim) waitLocked(d time.Duration) {
	t := time.AfterFunc(d, func() { s.cond.Broadcast() })
	s.cond.Wait()
	t.Stop()
}

func (s *Sim) addStream(st *VStream) {
	s.mu.Lock()
	s.nstream++
	st.ID = s.nstream
	s.streams[st.Leader+">"+st.Follower] = st
	s.gen++
	s.mu.Unlock()
	s.cond.Broadcast()
}

func (s *Sim) Stream(l, f string) *VStream {
	s.mu.Lock()
	st := s.streams[l+">"+f]
	s.mu.Unlock()
	if st == nil || st.Closed() {
		return nil
	}
	return st
}

// ---------------------------------------------------------------- operations used by the replayer

func NewTermReq(term int64) *proto.NewTermRequest {
	return &proto.NewTermRequest{Namespace: Namespace, Shard: Shard, Term: term, Options: &proto.NewTermOptions{EnableNotifications: true}}
}

func (s *Sim) NewTerm(node string, term int64) (*proto.EntryId, error) {
	n := s.nodes[node]
	if !n.isUp() {
		return nil, ErrWire
	}
	r, err := n.rpc.NewTerm(context.Background(), NewTermReq(term))
	if err != nil {
		return nil, err
	}
	return r.HeadEntryId, nil
}

// BecomeLeaderStart issues the BecomeLeader RPC in the background (it blocks inside the node until
// the quorum is reached).
func (s *Sim) BecomeLeaderStart(node string, term int64, rf uint32, fm map[string]*proto.EntryId) {
	n := s.nodes[node]
	ctx, cancel := context.WithCancel(context.Background())
	c := &blCall{done: make(chan struct{}), cancel: cancel}
	s.mu.Lock()
	s.bl[node] = c
	s.mu.Unlock()
	go func() {
		_, c.err = n.rpc.BecomeLeader(ctx, &proto.BecomeLeaderRequest{Namespace: Namespace, Shard: Shard, Term: term,
			ReplicationFactor: rf, FollowerMaps: fm})
		close(c.done)
		s.bump()
	}()
}

// BecomeLeaderResult: (finished, error)
func (s *Sim) BecomeLeaderResult(node string) (bool, error) {
	s.mu.Lock()
	c := s.bl[node]
	s.mu.Unlock()
	if c == nil {
		return false, nil
	}
	select {
	case <-c.done:
		return true, c.err
	default:
		return false, nil
	}
}

func (s *Sim) BecomeLeaderCancel(node string) {
	s.mu.Lock()
	c := s.bl[node]
	s.mu.Unlock()
	if c != nil {
		c.cancel()
	}
}

func (s *Sim) AddFollower(leader string, term int64, follower string, head *proto.EntryId) error {
	n := s.nodes[leader]
	if !n.isUp() {
		return ErrWire
	}
	_, err := n.rpc.AddFollower(context.Background(), &proto.AddFollowerRequest{Namespace: Namespace, Shard: Shard, Term: term,
		FollowerName: follower, FollowerHeadEntryId: head})
	return err
}

// SendTruncate delivers a Truncate request to a node directly (a delayed duplicate of a leader's request)
func (s *Sim) SendTruncate(node string, term int64, head *proto.EntryId) error {
	n := s.nodes[node]
	if !n.isUp() {
		return ErrWire
	}
	_, err := n.rpc.Truncate(context.Background(), &proto.TruncateRequest{Namespace: Namespace, Shard: Shard, Term: term, HeadEntryId: head})
	return err
}

func (s *Sim) DeleteShard(node string, term int64) error {
	n := s.nodes[node]
	if !n.isUp() {
		return ErrWire
	}
	_, err := n.rpc.DeleteShard(context.Background(), &proto.DeleteShardRequest{Namespace: Namespace, Shard: Shard, Term: term})
	return err
}

func wkey(idx int) string { return fmt.Sprintf("w/%03d", idx) }

// ClientWrite starts write number idx (a put of w/<idx> = val and of k = val) on the node's leader controller.
func (s *Sim) ClientWrite(node string, val string) (*Write, error) {
	n := s.nodes[node]
	if !n.isUp() {
		return nil, ErrWire
	}
	lc, err := n.dir.GetLeader(Shard)
	if err != nil {
		return nil, err
	}
	s.mu.Lock()
	w := &Write{Idx: len(s.writes), Node: node, Val: val, Offset: -1}
	s.writes = append(s.writes, w)
	s.mu.Unlock()
	ctx, cancel := context.WithCancel(context.Background())
	w.cancel = cancel
	sh := Shard
	req := &proto.WriteRequest{Shard: &sh, Puts: []*proto.PutRequest{
		{Key: wkey(w.Idx), Value: []byte(val)}, {Key: "k", Value: []byte(val)}}}
	go lc.Write(ctx, req, concurrent.NewOnce(func(r *proto.WriteResponse) {
		s.mu.Lock()
		w.Done = true
		if len(r.Puts) != 2 || r.Puts[0].Status != proto.Status_OK {
			w.Err = fmt.Sprintf("unexpected response %v", r)
		}
		s.gen++
		s.mu.Unlock()
		s.cond.Broadcast()
	}, func(err error) {
		s.mu.Lock()
		w.Done, w.Err = true, err.Error()
		s.gen++
		s.mu.Unlock()
		s.cond.Broadcast()
	}))
	return w, nil
}

func (s *Sim) CancelWrite(idx int) {
	s.mu.Lock()
	w := s.writes[idx]
	s.mu.Unlock()
	if w.cancel != nil {
		w.cancel()
	}
}

// WaitWrite blocks until write idx has completed (ok or error) or the timeout passes.
func (s *Sim) WaitWrite(idx int, timeout time.Duration) (done bool, errText string) {
	deadline := time.Now().Add(timeout)
	for {
		s.mu.Lock()
		w := s.writes[idx]
		d, e := w.Done, w.Err
		s.mu.Unlock()
		if d {
			return true, e
		}
		if time.Now().After(deadline) {
			return false, ""
		}
		time.Sleep(100 * time.Microsecond)
	}
}

func (s *Sim) Writes() []Write {
	s.mu.Lock()
	defer s.mu.Unlock()
	out := make([]Write, len(s.writes))
	for i, w := range s.writes {
		out[i] = *w
	}
	return out
}

// DeliverAppend hands the head of the stream's append queue to the follower's handler.
func (s *Sim) DeliverAppend(l, f string) error {
	st := s.Stream(l, f)
	if st == nil {
		return fmt.Errorf("no stream %s>%s", l, f)
	}
	st.mu.Lock()
	if len(st.app) == 0 {
		st.mu.Unlock()
		return fmt.Errorf("append queue of %s>%s is empty", l, f)
	}
	m := st.app[0]
	st.app = st.app[1:]
	st.mu.Unlock()
	select {
	case st.toF <- m:
		return nil
	case <-st.ctx.Done():
		return fmt.Errorf("stream %s>%s closed", l, f)
	case <-time.After(5 * time.Second):
		return fmt.Errorf("follower %s does not read its stream", f)
	}
}

func (s *Sim) DeliverAck(f, l string) error {
	st := s.Stream(l, f)
	if st == nil {
		return fmt.Errorf("no stream %s>%s", l, f)
	}
	st.mu.Lock()
	if len(st.ack) == 0 {
		st.mu.Unlock()
		return fmt.Errorf("ack queue of %s>%s is empty", l, f)
	}
	m := st.ack[0]
	st.ack = st.ack[1:]
	st.mu.Unlock()
	select {
	case st.toL <- m:
		return nil
	case <-st.ctx.Done():
		return fmt.Errorf("stream %s>%s closed", l, f)
	case <-time.After(5 * time.Second):
		return fmt.Errorf("cursor of %s does not read its stream", l)
	}
}

func (s *Sim) ResetStream(l, f string) error {
	st := s.Stream(l, f)
	if st == nil {
		return fmt.Errorf("no stream %s>%s", l, f)
	}
	st.close()
	select {
	case <-st.done:
	case <-time.After(5 * time.Second):
		return fmt.Errorf("follower handler of %s>%s did not end", l, f)
	}
	return nil
}

// Crash kills the node: unsynced WAL entries and unflushed DB state are lost. The old process image
// (director, controllers, goroutines) is abandoned, never closed: the node restarts on copies of its
// directories taken at the instant of the crash.
func (s *Sim) Crash(node string) error {
	n := s.nodes[node]
	d, err := s.Dump(node, nil)
	if err != nil {
		return err
	}
	n.mu.Lock()
	n.up = false
	n.gen++
	oldWal, oldDb := n.walDir, n.dbDir
	n.walDir = fmt.Sprintf("%s.%d", filepath.Join(s.base, node, "wal"), n.gen)
	n.dbDir = fmt.Sprintf("%s.%d", filepath.Join(s.base, node, "db"), n.gen)
	n.dead = append(n.dead, oldWal)
	newWal, newDb := n.walDir, n.dbDir
	n.mu.Unlock()
	// streams from/to the node die; parked gates of the node are forgotten (their goroutines are abandoned)
	s.mu.Lock()
	var keep []*parked
	for _, p := range s.parkedL {
		if p.from != node {
			keep = append(keep, p)
		}
	}
	s.parkedL = keep
	var sts []*VStream
	for _, st := range s.streams {
		if st.Leader == node || st.Follower == node {
			sts = append(sts, st)
		}
	}
	if c := s.bl[node]; c != nil {
		c.cancel()
	}
	s.mu.Unlock()
	for _, st := range sts {
		st.close()
	}
	// the crash image of the DB is what is on disk now (Pebble runs without a WAL of its own)
	for _, c := range [][2]string{{oldDb, newDb}, {oldWal, newWal}} {
		if _, err := os.Stat(c[0]); err == nil {
			if out, err := exec.Command("cp", "-a", c[0], c[1]).CombinedOutput(); err != nil {
				return fmt.Errorf("cp: %v %s", err, out)
			}
			_ = os.Remove(filepath.Join(c[1], Namespace, fmt.Sprintf("shard-%d", Shard), "LOCK"))
		}
	}
	// WAL := synced prefix
	if d.Ctrl != "none" && d.WalLastAppended > d.WalLastSynced {
		wf := wal.NewWalFactory(&wal.FactoryOptions{BaseWalDir: newWal, SegmentSize: 1 << 16, SyncData: false, Retention: time.Hour})
		w, err := wf.NewWal(Namespace, Shard, nil)
		if err != nil {
			return err
		}
		if _, err := w.TruncateLog(d.WalLastSynced); err != nil {
			return err
		}
		if err := w.Close(); err != nil {
			return err
		}
	}
	return nil
}

func (s *Sim) Restart(node string) error {
	return s.start(s.nodes[node])
}

// ---------------------------------------------------------------- projection

type PEntry struct {
	T int64  `json:"t"`
	V string `json:"v"`
}

type PNode struct {
	Up      bool     `json:"up"`
	Ctrl    string   `json:"ctrl"`
	Status  string   `json:"status"`
	Term    int64    `json:"term"`   // spec numbering (real + 1)
	Wal     []PEntry `json:"wal"`    // physical entries only
	First   int64    `json:"first"`  // spec offset of the first physical entry (phantom + 1); 0 if none
	Synced  int64    `json:"synced"` // spec count (real last synced + 1), 0 when the WAL is physically empty
	Applied []string `json:"applied"`
	DbTerm  int64    `json:"dbterm"`
	Head    int64    `json:"head"`   // leader tracker (spec numbering), -1 when none
	Commit  int64    `json:"commit"`
	LastApp int64    `json:"lastapp"` // follower, -1 when none
	Queued  int      `json:"queued"`  // sync requests queued behind the round in progress
	Cursors map[string]int64 `json:"cursors"` // follower -> ack offset (spec numbering)
}

func (s *Sim) Dump(node string, keys []string) (*server.VerifNodeDump, error) {
	n := s.nodes[node]
	if !n.isUp() {
		return &server.VerifNodeDump{Ctrl: "down"}, nil
	}
	return server.VerifDump(n.dir, Shard, keys)
}

func entryVal(raw []byte) string {
	lev := &proto.LogEntryValue{}
	if err := pb.Unmarshal(raw, lev); err != nil {
		return "?"
	}
	ws := lev.GetRequests().GetWrites()
	if len(ws) != 1 || len(ws[0].Puts) < 1 {
		return "?"
	}
	return string(ws[0].Puts[0].Value)
}

func (s *Sim) Project(node string) (*PNode, error) {
	s.mu.Lock()
	nw := len(s.writes)
	s.mu.Unlock()
	keys := make([]string, 0, nw)
	for i := 0; i < nw; i++ {
		keys = append(keys, wkey(i))
	}
	d, err := s.Dump(node, keys)
	if err != nil {
		return nil, err
	}
	p := &PNode{Up: d.Ctrl != "down", Ctrl: d.Ctrl, Status: d.Status, Term: TermToSpec(d.Term), Head: -1, Commit: -1, LastApp: -1,
		Wal: []PEntry{}, Applied: []string{}, Cursors: map[string]int64{}}
	if !p.Up {
		p.Ctrl = "none"
		return p, nil
	}
	for _, e := range d.Wal {
		p.Wal = append(p.Wal, PEntry{T: TermToSpec(e.Term), V: entryVal(e.Value)})
	}
	if len(d.Wal) > 0 {
		p.First = d.WalFirst + 1
		p.Synced = d.WalLastSynced + 1
	}
	p.DbTerm = TermToSpec(d.DbTerm)
	p.Queued = d.SyncQueued
	// the applied sequence is recovered from the version ids of the per-write records
	type rec struct {
		v   string
		ver int64
	}
	var recs []rec
	for _, r := range d.Records {
		recs = append(recs, rec{string(r.Value), r.Version.VersionId})
	}
	sort.Slice(recs, func(i, j int) bool { return recs[i].ver < recs[j].ver })
	for _, r := range recs {
		p.Applied = append(p.Applied, r.v)
	}
	if int64(len(p.Applied)) != d.DbCommit+1 && d.Ctrl != "none" {
		// commit offset and content disagree: expose it
		p.Applied = append(p.Applied, fmt.Sprintf("!commit=%d", d.DbCommit))
	}
	if d.Ctrl == "leader" && d.Head != -2 {
		p.Head, p.Commit = d.Head+1, d.Commit+1
	}
	for f, c := range d.Followers {
		p.Cursors[f] = c[0] + 1
	}
	if d.Ctrl == "follower" {
		p.LastApp = d.LastAppended + 1
	}
	return p, nil
}

// ReadKeys lists the per-write records through the node's leader controller, as a client read would
// (served only if the controller is in LEADER status). ok=false if the node does not serve.
func (s *Sim) ReadKeys(node string) (idx []int, term int64, ok bool) {
	n := s.nodes[node]
	if !n.isUp() {
		return nil, 0, false
	}
	lc, err := n.dir.GetLeader(Shard)
	if err != nil {
		return nil, 0, false
	}
	// the request is sent whatever the node's status is: refusing it is the controller's job (a node that
	// is not LEADER and answers anyway produces a read that the linearizability check judges)
	term = lc.Term()
	ch := make(chan []string, 1)
	failed := make(chan struct{}, 1)
	go func() {
		keys := []string{}
		done := make(chan struct{})
		lc.List(context.Background(), &proto.ListRequest{StartInclusive: "w/", EndExclusive: "w/~"},
			concurrent.NewStreamOnce(func(k string) error { keys = append(keys, k); return nil },
				func(err error) {
					if err != nil {
						keys = nil
					}
					close(done)
				}))
		<-done
		if keys == nil {
			failed <- struct{}{} // the request was refused (e.g. the node is no leader any more): no result
			return
		}
		ch <- keys
	}()
	select {
	case <-failed:
		return nil, 0, false
	case keys := <-ch:
		for _, k := range keys {
			var i int
			if _, err := fmt.Sscanf(k, "w/%d", &i); err == nil {
				idx = append(idx, i)
			}
		}
		if idx == nil {
			idx = []int{}
		}
		return idx, term, true
	case <-time.After(3 * time.Second):
		return nil, 0, false
	}
}

func (s *Sim) Names() []string { return s.names }

func (p *PNode) JSON() string { b, _ := json.Marshal(p); return string(b) }
