package dbmodel

import "regexp"

// Timestamp-only differences between two dumps (C06): the entry timestamp is assigned once by the leader and
// travels in the log; a replica whose records / notification batches differ from another one's in nothing but
// creation / modification / batch timestamps applied the same entries with another clock reading.  Such a
// difference depends on where a millisecond boundary falls and does not show at the same place when the same
// requests are executed again: routecheck treats it as a class of its own (see cmdReplay).

var tsField = regexp.MustCompile(`\b(cts|mts|ts)=-?\d+`)

// StripTimestamps blanks the timestamp fields of a described record / notification batch.
func StripTimestamps(s string) string { return tsField.ReplaceAllString(s, "$1=#") }

// DumpsDifferInTimestampsOnly: the dumps have the same keys, at least one value differs, and every value that
// differs is equal once the timestamp fields are blanked.
func DumpsDifferInTimestampsOnly(a, b []DumpEntry) bool {
	if len(a) != len(b) {
		return false
	}
	n := 0
	for i := range a {
		if a[i].Key != b[i].Key {
			return false
		}
		if a[i].Val == b[i].Val {
			continue
		}
		x, y := showVal(a[i]), showVal(b[i])
		if x == y || StripTimestamps(x) != StripTimestamps(y) {
			return false
		}
		n++
	}
	return n > 0
}
