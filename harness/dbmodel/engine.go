package dbmodel

import (
	"bytes"
	"context"
	"errors"
	"fmt"
	"io"
	"log/slog"
	"net"
	"os"
	"runtime"
	"runtime/pprof"
	"sort"
	"strconv"
	"strings"
	"time"

	"google.golang.org/grpc/peer"
	pb "google.golang.org/protobuf/proto"

	"github.com/oxia-db/oxia/common/channel"
	"github.com/oxia-db/oxia/common/concurrent"
	"github.com/oxia-db/oxia/common/entity"
	time2 "github.com/oxia-db/oxia/common/time"
	"github.com/oxia-db/oxia/proto"
	"github.com/oxia-db/oxia/server"
	"github.com/oxia-db/oxia/server/kv"
	"github.com/oxia-db/oxia/server/wal"
)

// CallTimeout bounds every call into the real code: a call that does not return is an outcome
// ("hang"), never something to wait for.
var CallTimeout = 20 * time.Second

func Quiet() { slog.SetDefault(slog.New(slog.NewTextHandler(io.Discard, nil))) }

// own implementation of the hierarchical order (the projection must not depend on the code under test)
func SlashCmp(a, b string) int {
	x, y := []byte(a), []byte(b)
	for len(x) > 0 && len(y) > 0 {
		i, j := bytes.IndexByte(x, '/'), bytes.IndexByte(y, '/')
		switch {
		case i < 0 && j < 0:
			return bytes.Compare(x, y)
		case i < 0:
			return -1
		case j < 0:
			return 1
		}
		if c := bytes.Compare(x[:i], y[:j]); c != 0 {
			return c
		}
		x, y = x[i+1:], y[j+1:]
	}
	switch {
	case len(x) < len(y):
		return -1
	case len(x) > len(y):
		return 1
	}
	return 0
}

func SortKeys(ks []string) { sort.Slice(ks, func(i, j int) bool { return SlashCmp(ks[i], ks[j]) < 0 }) }

// Engine executes requests on real code.
type Engine interface {
	// Write applies the request at the next offset; returns the offset used, the timestamp the
	// entry got (logical) and the response or the infrastructure error.
	Write(req *proto.WriteRequest, ts int) (off int, res *proto.WriteResponse, err error)
	Restart() error
	Get(req *proto.GetRequest) (*proto.GetResponse, error)
	List(req *proto.ListRequest) ([]string, error)
	Scan(req *proto.RangeScanRequest) ([]*proto.GetResponse, error)
	Notifications(off int) (*proto.NotificationBatch, error)
	NextOffset() int
	TsMap() TsMap
	HasIndexQueries() bool
	Close()
}

func guard[T any](f func() (T, error)) (T, error) {
	type r struct {
		v T
		e error
	}
	ch := make(chan r, 1)
	go func() {
		defer func() {
			if p := recover(); p != nil {
				var z T
				ch <- r{z, fmt.Errorf("panic: %v", p)}
			}
		}()
		v, e := f()
		ch <- r{v, e}
	}()
	select {
	case x := <-ch:
		return x.v, x.e
	case <-time.After(CallTimeout):
		var z T
		return z, ErrHang
	}
}

var ErrHang = errors.New("hang: call did not return")

func tmpDir(tag string) (string, error) {
	base := "/dev/shm"
	if _, err := os.Stat(base); err != nil {
		base = ""
	}
	return os.MkdirTemp(base, tag)
}

// ---------------------------------------------------------------- bare kv.DB

type DBEngine struct {
	dir     string
	factory kv.Factory
	db      kv.DB
	next    int
	hung    bool
}

func NewDBEngine() (*DBEngine, error) {
	dir, err := tmpDir("dbcheck-db")
	if err != nil {
		return nil, err
	}
	e := &DBEngine{dir: dir}
	return e, e.open()
}

func (e *DBEngine) open() error {
	f, err := kv.NewPebbleKVFactory(&kv.FactoryOptions{DataDir: e.dir, CacheSizeMB: 1})
	if err != nil {
		return err
	}
	db, err := kv.NewDB("default", Shard, f, time.Hour, time2.SystemClock)
	if err != nil {
		_ = f.Close()
		return err
	}
	e.factory, e.db = f, db
	return nil
}

func (e *DBEngine) Write(req *proto.WriteRequest, ts int) (int, *proto.WriteResponse, error) {
	off := e.next
	res, err := guard(func() (*proto.WriteResponse, error) {
		return e.db.ProcessWrite(req, int64(off), uint64(ts), server.WrapperUpdateOperationCallback)
	})
	if errors.Is(err, ErrHang) {
		e.hung = true
	}
	if err == nil {
		e.next++
	}
	return off, res, err
}

func (e *DBEngine) Restart() error {
	_, err := guard(func() (int, error) {
		if err := e.db.Close(); err != nil {
			return 0, err
		}
		if err := e.factory.Close(); err != nil {
			return 0, err
		}
		if err := e.open(); err != nil {
			return 0, err
		}
		co, err := e.db.ReadCommitOffset()
		if err != nil {
			return 0, err
		}
		if int(co)+1 != e.next {
			return 0, fmt.Errorf("commit offset after reopen is %d, %d requests were applied", co, e.next)
		}
		return 0, nil
	})
	return err
}

func (e *DBEngine) Get(req *proto.GetRequest) (*proto.GetResponse, error) {
	return guard(func() (*proto.GetResponse, error) { return e.db.Get(req) })
}

func (e *DBEngine) List(req *proto.ListRequest) ([]string, error) {
	return guard(func() ([]string, error) {
		it, err := e.db.List(req)
		if err != nil {
			return nil, err
		}
		defer it.Close()
		out := []string{}
		for ; it.Valid(); it.Next() {
			out = append(out, it.Key())
		}
		return out, nil
	})
}

func (e *DBEngine) Scan(req *proto.RangeScanRequest) ([]*proto.GetResponse, error) {
	return guard(func() ([]*proto.GetResponse, error) {
		it, err := e.db.RangeScan(req)
		if err != nil {
			return nil, err
		}
		defer it.Close()
		out := []*proto.GetResponse{}
		for ; it.Valid(); it.Next() {
			g, err := it.Value()
			if err != nil {
				return nil, err
			}
			out = append(out, g)
		}
		return out, nil
	})
}

func (e *DBEngine) Notifications(off int) (*proto.NotificationBatch, error) {
	return guard(func() (*proto.NotificationBatch, error) {
		ctx, cancel := context.WithTimeout(context.Background(), CallTimeout)
		defer cancel()
		bs, err := e.db.ReadNextNotifications(ctx, int64(off))
		if err != nil {
			return nil, err
		}
		for _, b := range bs {
			if b.Offset == int64(off) {
				return b, nil
			}
		}
		return nil, fmt.Errorf("no notification batch for offset %d", off)
	})
}

func (e *DBEngine) NextOffset() int       { return e.next }
func (e *DBEngine) TsMap() TsMap          { return func(t uint64) int { return int(t) } }
func (e *DBEngine) HasIndexQueries() bool { return false }
func (e *DBEngine) Close() {
	if !e.hung {
		_, _ = guard(func() (int, error) {
			_ = e.db.Close()
			_ = e.factory.Close()
			return 0, nil
		})
	}
	_ = os.RemoveAll(e.dir)
}

// ---------------------------------------------------------------- RF=1 leader controller

type LeaderEngine struct {
	dir  string
	kvf  kv.Factory
	walf wal.Factory
	lc   server.LeaderController
	term int64
	next int
	wall map[uint64]int // wall-clock ms of an entry -> logical timestamp of the trace
	last uint64
	dead bool
	id   string // unique peer name: labels the goroutines the controller starts for this engine
	ns   string // namespace of the controller ("default" unless the engine runs sessions on a fake clock)
	sess *SessCtl
	// set by ElectLagging (notif.go)
	dbCommit    bool                  // commit() reads the DB's commit offset (see commit)
	beforeFence func(*Follower) error // called by electLagging on the fed follower before it is fenced
}

type peerAddr string

func (peerAddr) Network() string  { return "verif" }
func (a peerAddr) String() string { return string(a) }

var _ net.Addr = peerAddr("")
var engineSeq atomicCounter

type atomicCounter struct {
	mu chan struct{}
	n  int
}

func (c *atomicCounter) next() int {
	if c.mu == nil {
		panic("uninitialised")
	}
	c.mu <- struct{}{}
	c.n++
	n := c.n
	<-c.mu
	return n
}

func init() { engineSeq.mu = make(chan struct{}, 1) }

// ctx returns a context that carries the engine's peer name; the leader controller copies it into the
// pprof labels of every goroutine it starts for a read, list, range-scan or notification request.
func (e *LeaderEngine) ctx() (context.Context, context.CancelFunc) {
	c, cancel := context.WithTimeout(context.Background(), CallTimeout)
	return peer.NewContext(c, &peer.Peer{Addr: peerAddr(e.id)}), cancel
}

// quiesce waits until every request goroutine of this engine has exited.  The controller signals
// completion to the caller before the goroutine closes its iterator; closing the controller while such a
// goroutine is still running crashes the process inside Pebble (iterator closed after the DB), which
// is not what these checks are about.
// a list issued by the session manager itself (session.delete, Initialize) carries no peer
var internalList = []byte(`"oxia":"list", "peer":""`)

func (e *LeaderEngine) quiesce() {
	deadline := time.Now().Add(CallTimeout)
	needle := []byte(fmt.Sprintf("%q:%q", "peer", e.id))
	for time.Now().Before(deadline) {
		var buf bytes.Buffer
		_ = pprof.Lookup("goroutine").WriteTo(&buf, 1)
		if !bytes.Contains(buf.Bytes(), needle) && !(e.sess != nil && bytes.Contains(buf.Bytes(), internalList)) {
			return
		}
		runtime.Gosched()
		time.Sleep(200 * time.Microsecond)
	}
}

func NewLeaderEngine() (*LeaderEngine, error) {
	dir, err := tmpDir("dbcheck-lc")
	if err != nil {
		return nil, err
	}
	e := &LeaderEngine{dir: dir, wall: map[uint64]int{}, id: fmt.Sprintf("verif-engine-%d", engineSeq.next()), ns: "default"}
	return e, e.start()
}

func (e *LeaderEngine) start() (err error) {
	dir := e.dir
	e.kvf, err = kv.NewPebbleKVFactory(&kv.FactoryOptions{DataDir: dir + "/db", CacheSizeMB: 1})
	if err != nil {
		return err
	}
	e.walf = wal.NewWalFactory(&wal.FactoryOptions{BaseWalDir: dir + "/wal", Retention: time.Hour, SegmentSize: 1 << 20, SyncData: false})
	return e.lead()
}

func (e *LeaderEngine) lead() error {
	_, err := guard(func() (int, error) {
		lc, err := server.NewLeaderController(server.Config{NotificationsRetentionTime: time.Hour}, e.ns, Shard, nil, e.walf, e.kvf)
		if err != nil {
			return 0, fmt.Errorf("NewLeaderController: %w", err)
		}
		e.lc = lc
		e.term++
		if _, err := lc.NewTerm(&proto.NewTermRequest{Shard: Shard, Term: e.term}); err != nil {
			return 0, fmt.Errorf("NewTerm: %w", err)
		}
		if _, err := lc.BecomeLeader(context.Background(), &proto.BecomeLeaderRequest{Shard: Shard, Term: e.term, ReplicationFactor: 1}); err != nil {
			return 0, fmt.Errorf("BecomeLeader: %w", err)
		}
		return 0, nil
	})
	if err != nil {
		e.dead = true
	}
	return err
}

func (e *LeaderEngine) commit() int {
	st, err := e.lc.GetStatus(&proto.GetStatusRequest{Shard: Shard})
	if err != nil {
		return -2
	}
	c := int(st.CommitOffset)
	if e.sess != nil || e.dbCommit {
		// An RF=1 leader elected with a DB that lagged its log reports the DB's old commit offset until
		// its next write (the quorum tracker is created before the tail is applied): what was applied is
		// read from the DB.
		if db := server.VerifLeaderDB(e.lc); db != nil {
			if d, err := db.ReadCommitOffset(); err == nil && int(d) > c {
				c = int(d)
			}
		}
	}
	return c
}

// Write goes through LeaderController.WriteBlock: offset allocation, WAL append, commit, apply.
func (e *LeaderEngine) Write(req *proto.WriteRequest, ts int) (int, *proto.WriteResponse, error) {
	// every entry gets its own millisecond, so that logical and wall-clock timestamps correspond 1:1
	for uint64(time.Now().UnixMilli()) <= e.last {
		time.Sleep(100 * time.Microsecond)
	}
	before := e.commit()
	res, err := guard(func() (*proto.WriteResponse, error) { return e.lc.WriteBlock(context.Background(), req) })
	if errors.Is(err, ErrHang) {
		e.dead = true
		return e.next, nil, err
	}
	after := e.commit()
	e.last = uint64(time.Now().UnixMilli())
	off := e.next
	if after == before {
		// nothing was logged: the request was refused before an offset was allocated
		if err == nil {
			err = errors.New("write returned a response but the commit offset did not move")
		}
		return -1, res, &Rejected{err}
	}
	if after != before+1 || after != off {
		return off, res, fmt.Errorf("harness: commit offset went from %d to %d, expected offset %d (%v)", before, after, off, err)
	}
	e.next++
	if err != nil {
		// logged but not applied: there is no notification batch to learn the timestamp from
		return off, res, err
	}
	// learn the timestamp the leader gave the entry
	if b, nerr := e.Notifications(off); nerr == nil {
		if _, ok := e.wall[b.Timestamp]; !ok {
			e.wall[b.Timestamp] = ts
		}
	}
	return off, res, err
}

// Rejected wraps the error of a request that the leader refused without logging it.
type Rejected struct{ Err error }

func (r *Rejected) Error() string { return "rejected: " + r.Err.Error() }

func (e *LeaderEngine) Restart() error {
	e.quiesce()
	if _, err := guard(func() (int, error) { return 0, e.lc.Close() }); err != nil {
		return fmt.Errorf("Close: %w", err)
	}
	if err := e.lead(); err != nil {
		return err
	}
	if c := e.commit(); c+1 != e.next {
		return fmt.Errorf("commit offset after restart is %d, %d entries were logged", c, e.next)
	}
	return nil
}

func (e *LeaderEngine) Get(req *proto.GetRequest) (*proto.GetResponse, error) {
	return guard(func() (*proto.GetResponse, error) {
		ch := make(chan *entity.TWithError[*proto.GetResponse], 4)
		ctx, cancel := e.ctx()
		defer cancel()
		e.lc.Read(ctx, &proto.ReadRequest{Shard: pb.Int64(Shard), Gets: []*proto.GetRequest{req}}, concurrent.ReadFromStreamCallback(ch))
		rs, err := channel.ReadAll(ctx, ch)
		if err != nil {
			return nil, err
		}
		if len(rs) != 1 {
			return nil, fmt.Errorf("read returned %d responses", len(rs))
		}
		return rs[0], nil
	})
}

func (e *LeaderEngine) List(req *proto.ListRequest) ([]string, error) {
	return guard(func() ([]string, error) {
		ch := make(chan *entity.TWithError[string], 16)
		ctx, cancel := e.ctx()
		defer cancel()
		req.Shard = pb.Int64(Shard)
		e.lc.List(ctx, req, concurrent.ReadFromStreamCallback(ch))
		return channel.ReadAll(ctx, ch)
	})
}

func (e *LeaderEngine) Scan(req *proto.RangeScanRequest) ([]*proto.GetResponse, error) {
	return guard(func() ([]*proto.GetResponse, error) {
		ch := make(chan *entity.TWithError[*proto.GetResponse], 16)
		ctx, cancel := e.ctx()
		defer cancel()
		req.Shard = pb.Int64(Shard)
		e.lc.RangeScan(ctx, req, concurrent.ReadFromStreamCallback(ch))
		return channel.ReadAll(ctx, ch)
	})
}

type notifCb struct {
	want int64
	got  chan *proto.NotificationBatch
	done chan error
}

func (c *notifCb) OnNext(b *proto.NotificationBatch) error {
	if b.Offset == c.want {
		select {
		case c.got <- b:
		default:
		}
		return io.EOF // stop the dispatcher
	}
	if b.Offset > c.want {
		return io.EOF
	}
	return nil
}

func (c *notifCb) OnComplete(err error) {
	select {
	case c.done <- err:
	default:
	}
}

func (e *LeaderEngine) Notifications(off int) (*proto.NotificationBatch, error) {
	ctx, cancel := e.ctx()
	defer cancel()
	cb := &notifCb{want: int64(off), got: make(chan *proto.NotificationBatch, 1), done: make(chan error, 1)}
	e.lc.GetNotifications(ctx, &proto.NotificationsRequest{Shard: Shard, StartOffsetExclusive: pb.Int64(int64(off) - 1)}, cb)
	select {
	case b := <-cb.got:
		return b, nil
	case err := <-cb.done:
		select {
		case b := <-cb.got:
			return b, nil
		default:
		}
		return nil, fmt.Errorf("no notification batch for offset %d: %v", off, err)
	case <-ctx.Done():
		return nil, fmt.Errorf("no notification batch for offset %d: timeout", off)
	}
}

func (e *LeaderEngine) NextOffset() int { return e.next }
func (e *LeaderEngine) TsMap() TsMap {
	return func(t uint64) int {
		if l, ok := e.wall[t]; ok {
			return l
		}
		if t == 0 {
			return 0
		}
		return -int(t % 1000000) // a timestamp no entry of this run carries
	}
}
func (e *LeaderEngine) HasIndexQueries() bool { return true }
func (e *LeaderEngine) Close() {
	e.drainSessions()
	e.quiesce()
	if !e.dead && e.lc != nil {
		_, _ = guard(func() (int, error) { return 0, e.lc.Close() })
	}
	_, _ = guard(func() (int, error) { _ = e.kvf.Close(); _ = e.walf.Close(); return 0, nil })
	_ = os.RemoveAll(e.dir)
}

// CreateSession creates a session through the real session manager (leader only); its id is the
// offset of the entry that registers it.
func (e *LeaderEngine) CreateSession() (int, error) {
	for uint64(time.Now().UnixMilli()) <= e.last {
		time.Sleep(100 * time.Microsecond)
	}
	r, err := guard(func() (*proto.CreateSessionResponse, error) {
		return e.lc.CreateSession(&proto.CreateSessionRequest{Shard: Shard, SessionTimeoutMs: 300000, ClientIdentity: "verif"})
	})
	e.last = uint64(time.Now().UnixMilli())
	if err != nil {
		return -1, err
	}
	off := e.next
	e.next++
	if int(r.SessionId) != off {
		return int(r.SessionId), fmt.Errorf("harness: session id %d, expected offset %d", r.SessionId, off)
	}
	return off, nil
}

// ---------------------------------------------------------------- observation

// ownKey: keys oxia maintains itself (not records written through a request)
func ownKey(k string) bool {
	if !strings.HasPrefix(k, OxiaPrefix) {
		return false
	}
	switch k {
	case "__oxia/commit-offset", "__oxia/last-version-id", "__oxia/term", "__oxia/term-options":
		return true
	}
	if strings.HasPrefix(k, "__oxia/notifications/") || strings.HasPrefix(k, IdxPrefix) {
		return true
	}
	return strings.HasPrefix(k, SessPrefix) && !isSessionKey(k) // shadow keys
}

func isSessionKey(k string) bool {
	return strings.HasPrefix(k, SessPrefix) && strings.Count(k, "/") == 2
}

// Observe reads the whole observable state back through Get / List / RangeScan and cross-checks the
// three read paths against each other; inconsistencies between them are returned as problems.
func Observe(e Engine, st *Step, probeKeys []string) (problems []string) {
	tm := e.TsMap()
	st.Recs, st.Idx, st.Shadow, st.Lv = []Rec{}, []Key{}, []Key{}, -1
	type rng struct{ s, e string }
	// user keys below the internal block, the records inside it, user keys above the block
	ranges := []rng{{"", OxiaPrefix}, {OxiaPrefix, AfterOxia}, {AfterOxia, ""}}
	seen := map[string]bool{}
	for ri, r := range ranges {
		ks, err := e.List(&proto.ListRequest{StartInclusive: r.s, EndExclusive: r.e})
		if err != nil {
			return append(problems, fmt.Sprintf("List[%q,%q): %v", r.s, r.e, err))
		}
		var gs []*proto.GetResponse
		if ri != 1 {
			gs, err = e.Scan(&proto.RangeScanRequest{StartInclusive: r.s, EndExclusive: r.e})
			if err != nil {
				return append(problems, fmt.Sprintf("RangeScan[%q,%q): %v", r.s, r.e, err))
			}
			if len(ks) != len(gs) {
				problems = append(problems, fmt.Sprintf("List[%q,%q) returns %d keys, RangeScan %d records", r.s, r.e, len(ks), len(gs)))
			}
		}
		for i, k := range ks {
			if ri == 1 {
				// oxia's own keys are not records (a range-scan over them cannot even be decoded);
				// anything else under the prefix (session records, records a client put there) is
				if ownKey(k) {
					continue
				}
			} else if i < len(gs) && gs[i].GetKey() != k {
				problems = append(problems, fmt.Sprintf("List and RangeScan disagree at position %d: %q vs %q", i, k, gs[i].GetKey()))
				continue
			}
			// point read of the same key
			pg, err := e.Get(&proto.GetRequest{Key: k, IncludeValue: true})
			if err != nil {
				problems = append(problems, fmt.Sprintf("Get(%q): %v", k, err))
				continue
			}
			if pg.Status != proto.Status_OK {
				problems = append(problems, fmt.Sprintf("Get(%q) = %v but the key is listed", k, pg.Status))
				continue
			}
			rec := RecFromGet(k, pg, tm)
			if ri != 1 && i < len(gs) {
				if r2 := RecFromGet(k, gs[i], tm); fmt.Sprint(r2) != fmt.Sprint(rec) {
					problems = append(problems, fmt.Sprintf("Get(%q) = %+v, RangeScan = %+v", k, rec, r2))
				}
			}
			st.Recs = append(st.Recs, rec)
			seen[k] = true
		}
	}
	for _, k := range probeKeys {
		if seen[k] || ownKey(k) {
			continue
		}
		pg, err := e.Get(&proto.GetRequest{Key: k, IncludeValue: true})
		if err != nil {
			problems = append(problems, fmt.Sprintf("Get(%q): %v", k, err))
		} else if pg.Status != proto.Status_KEY_NOT_FOUND {
			problems = append(problems, fmt.Sprintf("Get(%q) = %v but the key is not returned by RangeScan", k, pg.Status))
		}
	}
	// secondary-index entries and session shadow keys, as raw keys
	ks, err := e.List(&proto.ListRequest{StartInclusive: IdxPrefix, EndExclusive: "__oxia/idx\x00/"})
	if err != nil {
		return append(problems, "List(index keys): "+err.Error())
	}
	for _, k := range ks {
		st.Idx = append(st.Idx, K(k))
	}
	ks, err = e.List(&proto.ListRequest{StartInclusive: SessPrefix, EndExclusive: "__oxia/session\x00/"})
	if err != nil {
		return append(problems, "List(session keys): "+err.Error())
	}
	for _, k := range ks {
		if !isSessionKey(k) {
			st.Shadow = append(st.Shadow, K(k))
		}
	}
	g, err := e.Get(&proto.GetRequest{Key: "__oxia/last-version-id", IncludeValue: true})
	if err != nil {
		return append(problems, "Get(last-version-id): "+err.Error())
	}
	if g.Status == proto.Status_OK {
		n, err := strconv.Atoi(string(g.Value))
		if err != nil {
			problems = append(problems, "last-version-id is not a number: "+string(g.Value))
		}
		st.Lv = n
	}
	return problems
}

var cmpTypes = map[string]proto.KeyComparisonType{
	"EQUAL": proto.KeyComparisonType_EQUAL, "FLOOR": proto.KeyComparisonType_FLOOR, "CEILING": proto.KeyComparisonType_CEILING,
	"LOWER": proto.KeyComparisonType_LOWER, "HIGHER": proto.KeyComparisonType_HIGHER,
}

// RunProbes executes the index queries of st.Gets / st.Lists (arguments only) on the real leader and
// fills in what it answered.  Records returned by index queries are cross-checked against st.Recs.
func RunProbes(e Engine, st *Step) (problems []string) {
	tm := e.TsMap()
	byKey := map[string]Rec{}
	for _, r := range st.Recs {
		byKey[r.Key.S()] = r
	}
	for i := range st.Gets {
		g := &st.Gets[i]
		name := g.N.S()
		r, err := e.Get(&proto.GetRequest{Key: g.Key.S(), IncludeValue: true, ComparisonType: cmpTypes[g.Cmp], SecondaryIndexName: &name})
		g.Found, g.P, g.K = false, Key{}, Key{}
		if err != nil {
			problems = append(problems, fmt.Sprintf("index get %s %s %q: %v", name, g.Cmp, g.Key.S(), err))
			continue
		}
		if r.Status == proto.Status_OK {
			g.Found, g.P, g.K = true, K(r.GetKey()), K(r.GetSecondaryIndexKey())
			if want, ok := byKey[r.GetKey()]; !ok {
				problems = append(problems, fmt.Sprintf("index get %s %s %q returns %q which is not a live record", name, g.Cmp, g.Key.S(), r.GetKey()))
			} else if got := RecFromGet(r.GetKey(), r, tm); fmt.Sprint(got) != fmt.Sprint(want) {
				problems = append(problems, fmt.Sprintf("index get %s %s %q returns %+v, the record is %+v", name, g.Cmp, g.Key.S(), got, want))
			}
		} else if r.Status != proto.Status_KEY_NOT_FOUND {
			problems = append(problems, fmt.Sprintf("index get %s %s %q: status %v", name, g.Cmp, g.Key.S(), r.Status))
		}
	}
	for i := range st.Lists {
		l := &st.Lists[i]
		name := l.N.S()
		l.Ps = []Key{}
		ks, err := e.List(&proto.ListRequest{StartInclusive: l.S.S(), EndExclusive: l.E.S(), SecondaryIndexName: &name})
		if err != nil {
			problems = append(problems, fmt.Sprintf("index list %s [%q,%q): %v", name, l.S.S(), l.E.S(), err))
			continue
		}
		for _, k := range ks {
			l.Ps = append(l.Ps, K(k))
		}
		gs, err := e.Scan(&proto.RangeScanRequest{StartInclusive: l.S.S(), EndExclusive: l.E.S(), SecondaryIndexName: &name})
		if err != nil {
			problems = append(problems, fmt.Sprintf("index range-scan %s [%q,%q): %v", name, l.S.S(), l.E.S(), err))
			continue
		}
		if len(gs) != len(ks) {
			problems = append(problems, fmt.Sprintf("index %s [%q,%q): list returns %d keys, range-scan %d records", name, l.S.S(), l.E.S(), len(ks), len(gs)))
			continue
		}
		for j, g := range gs {
			if g.GetKey() != ks[j] {
				problems = append(problems, fmt.Sprintf("index %s: list and range-scan disagree at %d: %q vs %q", name, j, ks[j], g.GetKey()))
			} else if want, ok := byKey[g.GetKey()]; !ok || g.Status != proto.Status_OK {
				problems = append(problems, fmt.Sprintf("index range-scan %s returns %q (status %v) which is not a live record", name, g.GetKey(), g.Status))
			} else if got := RecFromGet(g.GetKey(), g, tm); fmt.Sprint(got) != fmt.Sprint(want) {
				problems = append(problems, fmt.Sprintf("index range-scan %s returns %+v, the record is %+v", name, got, want))
			}
		}
	}
	return problems
}
