package dbmodel

import (
	"context"
	"errors"
	"fmt"
	"io"
	"os"
	"runtime/pprof"
	"sort"
	"sync"
	"time"

	"google.golang.org/grpc/metadata"
	pb "google.golang.org/protobuf/proto"

	"github.com/oxia-db/oxia/proto"
	"github.com/oxia-db/oxia/server"
	"github.com/oxia-db/oxia/server/kv"
	"github.com/oxia-db/oxia/server/wal"
)

// RF3 is the route "applied live on a leader whose entries are committed by the acknowledgements of two
// followers" (C06): a real leader controller with replication factor 3 and two real follower controllers,
// connected by in-process Replicate streams that deliver at once.  Requests are issued by concurrent
// writers, so that several entries are in flight and the acknowledgements of the two followers race; the
// order of the log is the leader's.  What the leader's database then holds must be what applying ITS log in
// order gives - the leader's WAL and the state it exposes are handed to TLC (DbLogTrace.tla), and the same
// WAL is replayed by a fresh leader (ReplayedFromWalRead) for the dump comparison.
type RF3 struct {
	*LeaderEngine
	F    [2]*Follower
	name [2]string
}

type clientBase struct{ ctx context.Context }

func (b *clientBase) Header() (metadata.MD, error) { return nil, nil }
func (b *clientBase) Trailer() metadata.MD         { return nil }
func (b *clientBase) CloseSend() error             { return nil }
func (b *clientBase) Context() context.Context     { return b.ctx }
func (b *clientBase) SendMsg(any) error            { return nil }
func (b *clientBase) RecvMsg(any) error            { return nil }

type rf3Pipe struct {
	ctx     context.Context
	cancel  context.CancelFunc
	appends chan *proto.Append
	acks    chan *proto.Ack
}

type rf3Client struct {
	clientBase
	p *rf3Pipe
}

func (c *rf3Client) Send(a *proto.Append) error {
	select {
	case c.p.appends <- a:
		return nil
	case <-c.p.ctx.Done():
		return c.p.ctx.Err()
	}
}

func (c *rf3Client) Recv() (*proto.Ack, error) {
	select {
	case a := <-c.p.acks:
		return a, nil
	case <-c.p.ctx.Done():
		return nil, c.p.ctx.Err()
	}
}

func (c *rf3Client) CloseSend() error { c.p.cancel(); return nil }

type rf3Server struct {
	baseStream
	p *rf3Pipe
}

func (s *rf3Server) Send(a *proto.Ack) error {
	select {
	case s.p.acks <- a:
		return nil
	case <-s.p.ctx.Done():
		return s.p.ctx.Err()
	}
}

func (s *rf3Server) Recv() (*proto.Append, error) {
	select {
	case a := <-s.p.appends:
		return a, nil
	case <-s.p.ctx.Done():
		return nil, io.EOF
	}
}

type rf3Provider struct {
	mu    sync.Mutex
	r     *RF3
	pipes []*rf3Pipe
	wg    sync.WaitGroup
}

func (p *rf3Provider) Close() error { return nil }

func (p *rf3Provider) follower(name string) *Follower {
	for i, n := range p.r.name {
		if n == name {
			return p.r.F[i]
		}
	}
	return nil
}

func (p *rf3Provider) GetReplicateStream(ctx context.Context, follower string, _ string, _ int64, _ int64) (proto.OxiaLogReplication_ReplicateClient, error) {
	f := p.follower(follower)
	if f == nil {
		return nil, fmt.Errorf("unknown follower %q", follower)
	}
	if f.id == "" {
		f.id = fmt.Sprintf("verif-follower-%d", engineSeq.next())
	}
	cctx, cancel := context.WithCancel(pprof.WithLabels(context.Background(), pprof.Labels("verif", f.id)))
	pp := &rf3Pipe{ctx: cctx, cancel: cancel, appends: make(chan *proto.Append, 256), acks: make(chan *proto.Ack, 256)}
	p.mu.Lock()
	p.pipes = append(p.pipes, pp)
	p.mu.Unlock()
	p.wg.Add(1)
	go func() {
		defer p.wg.Done()
		_ = f.fc.Replicate(&rf3Server{baseStream{cctx}, pp})
		cancel()
	}()
	go func() {
		select {
		case <-ctx.Done():
			cancel()
		case <-cctx.Done():
		}
	}()
	return &rf3Client{clientBase{cctx}, pp}, nil
}

func (p *rf3Provider) SendSnapshot(context.Context, string, string, int64, int64) (proto.OxiaLogReplication_SendSnapshotClient, error) {
	return nil, errors.New("no snapshot on this route")
}

func (p *rf3Provider) Truncate(follower string, req *proto.TruncateRequest) (*proto.TruncateResponse, error) {
	f := p.follower(follower)
	if f == nil {
		return nil, fmt.Errorf("unknown follower %q", follower)
	}
	return f.fc.Truncate(req)
}

func NewRF3() (*RF3, error) {
	dir, err := tmpDir("routes-rf3")
	if err != nil {
		return nil, err
	}
	e := &LeaderEngine{dir: dir, wall: map[uint64]int{}, id: fmt.Sprintf("verif-engine-%d", engineSeq.next()), ns: "default", term: 1}
	r := &RF3{LeaderEngine: e, name: [2]string{"f1", "f2"}}
	if e.kvf, err = kv.NewPebbleKVFactory(&kv.FactoryOptions{DataDir: dir + "/db", CacheSizeMB: 1}); err != nil {
		_ = os.RemoveAll(dir)
		return nil, err
	}
	e.walf = wal.NewWalFactory(&wal.FactoryOptions{BaseWalDir: dir + "/wal", Retention: time.Hour, SegmentSize: 1 << 20, SyncData: false})
	for i := range r.F {
		if r.F[i], err = NewFollower(e.ns, e.term); err != nil {
			r.Close()
			return nil, err
		}
	}
	prov := &rf3Provider{r: r}
	_, err = guard(func() (int, error) {
		lc, err := server.NewLeaderController(server.Config{NotificationsRetentionTime: time.Hour}, e.ns, Shard, prov, e.walf, e.kvf)
		if err != nil {
			return 0, fmt.Errorf("NewLeaderController: %w", err)
		}
		e.lc = lc
		if _, err := lc.NewTerm(&proto.NewTermRequest{Shard: Shard, Term: e.term}); err != nil {
			return 0, fmt.Errorf("NewTerm: %w", err)
		}
		head := &proto.EntryId{Term: wal.InvalidTerm, Offset: wal.InvalidOffset}
		if _, err := lc.BecomeLeader(context.Background(), &proto.BecomeLeaderRequest{Shard: Shard, Term: e.term, ReplicationFactor: 3,
			FollowerMaps: map[string]*proto.EntryId{r.name[0]: head, r.name[1]: pb.Clone(head).(*proto.EntryId)}}); err != nil {
			return 0, fmt.Errorf("BecomeLeader: %w", err)
		}
		return 0, nil
	})
	if err != nil {
		e.dead = true
		r.Close()
		return nil, err
	}
	return r, nil
}

// WriteAll issues the requests from `writers` concurrent writers (each takes the next request that is not
// taken yet) and waits for all of them.  Returns the number of requests the leader answered with an error.
func (r *RF3) WriteAll(reqs []*proto.WriteRequest, writers int) (failed int, first error) {
	var mu sync.Mutex
	next := 0
	var wg sync.WaitGroup
	for w := 0; w < writers; w++ {
		wg.Add(1)
		go func() {
			defer wg.Done()
			for {
				mu.Lock()
				i := next
				next++
				mu.Unlock()
				if i >= len(reqs) {
					return
				}
				_, err := guard(func() (*proto.WriteResponse, error) { return r.lc.WriteBlock(context.Background(), reqs[i]) })
				if err != nil {
					mu.Lock()
					failed++
					if first == nil {
						first = err
					}
					mu.Unlock()
					if errors.Is(err, ErrHang) {
						return
					}
				}
			}
		}()
	}
	wg.Wait()
	return failed, first
}

// LogicalTimes maps the wall-clock timestamps of the log entries to small numbers in the same order
// (TLC's integers are 32 bits wide) and installs the mapping for the records read back from the leader.
func (r *RF3) LogicalTimes(entries []*proto.LogEntry) {
	var ts []uint64
	seen := map[uint64]bool{}
	for _, le := range entries {
		if !seen[le.Timestamp] {
			seen[le.Timestamp] = true
			ts = append(ts, le.Timestamp)
		}
	}
	sort.Slice(ts, func(i, j int) bool { return ts[i] < ts[j] })
	for i, t := range ts {
		r.wall[t] = 1000 + i
	}
}

// SetNext tells the engine how many entries its log holds (for ReplayedFromWal's completeness check).
func (r *RF3) SetNext(n int) { r.next = n }

func (r *RF3) Close() {
	r.quiesce()
	if !r.dead && r.lc != nil {
		_, _ = guard(func() (int, error) { return 0, r.lc.Close() })
	}
	for _, f := range r.F {
		if f != nil {
			f.waitStreamGoroutines()
			f.Close()
		}
	}
	_, _ = guard(func() (int, error) { _ = r.kvf.Close(); _ = r.walf.Close(); return 0, nil })
	_ = os.RemoveAll(r.dir)
}

// ReqFromProto is the inverse of Req.Proto for the requests this harness writes (read back from a log).
func ReqFromProto(w *proto.WriteRequest) Req {
	r := Req{Puts: []Put{}, Dels: []Del{}, Rngs: []Rng{}}
	for _, q := range w.GetPuts() {
		p := Put{Key: K(q.Key), Val: ValueInt(q.Key, q.Value), Exp: NoExp, Sess: NoSess, Deltas: []int{}, Idx: []IdxE{}}
		if q.ExpectedVersionId != nil {
			p.Exp = int(*q.ExpectedVersionId)
		}
		if q.SessionId != nil {
			p.Sess = int(*q.SessionId)
		}
		p.Cid = q.GetClientIdentity()
		p.Cidp = q.ClientIdentity != nil && p.Cid == ""
		if q.PartitionKey != nil {
			p.SetPartitionKey(*q.PartitionKey)
		}
		p.SetDeltas(q.SequenceKeyDelta)
		for _, ix := range q.SecondaryIndexes {
			p.Idx = append(p.Idx, IdxE{N: K(ix.IndexName), K: K(ix.SecondaryKey)})
		}
		r.Puts = append(r.Puts, p)
	}
	for _, q := range w.GetDeletes() {
		d := Del{Key: K(q.Key), Exp: NoExp}
		if q.ExpectedVersionId != nil {
			d.Exp = int(*q.ExpectedVersionId)
		}
		r.Dels = append(r.Dels, d)
	}
	for _, q := range w.GetDeleteRanges() {
		r.Rngs = append(r.Rngs, Rng{S: K(q.StartInclusive), E: K(q.EndExclusive)})
	}
	return r
}

// EntryRequests decodes the write requests of a log entry.
func EntryRequests(le *proto.LogEntry) ([]*proto.WriteRequest, error) {
	lev := &proto.LogEntryValue{}
	if err := lev.UnmarshalVT(le.Value); err != nil {
		return nil, err
	}
	return lev.GetRequests().GetWrites(), nil
}
