// Package dbmodel is the Go side of spec/OxiaDb.tla: the JSON shape of requests, results and
// observations exchanged with TLC, the translation to and from the real protobufs, and two engines
// that execute write requests on the real code (a bare kv.DB and an RF=1 leader controller).
package dbmodel

import (
	"bytes"
	"encoding/json"
	"fmt"
	"strconv"
	"strings"

	pb "google.golang.org/protobuf/proto"

	"github.com/oxia-db/oxia/proto"
)

const (
	NoExp  = -2
	NoSess = -1
	Shard  = int64(1)

	OxiaPrefix = "__oxia/"
	SessPrefix = "__oxia/session/"
	IdxPrefix  = "__oxia/idx/"
	// first key after the block of internal keys in the hierarchical order
	AfterOxia = "__oxia\x00/"
)

// Key is a key as TLC sees it: the sequence of its byte codes.
type Key []int

func K(s string) Key {
	k := make(Key, len(s))
	for i := 0; i < len(s); i++ {
		k[i] = int(s[i])
	}
	return k
}

func (k Key) S() string {
	b := make([]byte, len(k))
	for i, c := range k {
		b[i] = byte(c)
	}
	return string(b)
}

func (k Key) MarshalJSON() ([]byte, error) {
	if len(k) == 0 {
		return []byte("[]"), nil
	}
	return json.Marshal([]int(k))
}

func (k Key) Q() string { return strconv.Quote(k.S()) }

type IdxE struct {
	N Key `json:"n"`
	K Key `json:"k"`
}

type Put struct {
	Key    Key    `json:"key"`
	Val    int    `json:"val"`
	Exp    int    `json:"exp"`
	Sess   int    `json:"sess"`
	Cid    string `json:"cid"`
	Pkey   bool   `json:"pkey"`
	Deltas []int  `json:"deltas"`
	Idx    []IdxE `json:"idx"`
	// Bd (OxiaDb.tla: BigOf / Delta20): deltas that do not fit a TLC integer, as decimal digits; parallel to
	// Deltas, a non-empty element takes precedence over Deltas[i].  Absent for puts with small deltas.
	Bd []Key `json:"bd,omitempty"`
	// Pk (OxiaDb.tla: PkVal): the VALUE of the partition key when it is present (Pkey); a pointer so that
	// "present with the value \"\"" (`"pk":[]`) and "field not given" (the value "pk") stay different.
	Pk *Key `json:"pk,omitempty"`
	// Cidp (OxiaDb.tla: CidPresent): the client identity is present although Cid is empty.
	Cidp bool `json:"cidp,omitempty"`
}

// PartitionKey is the value of the partition key of a put that carries one.
func (p *Put) PartitionKey() string {
	if p.Pk != nil {
		return p.Pk.S()
	}
	return "pk"
}

// SetPartitionKey makes the partition key present with the given value.
func (p *Put) SetPartitionKey(v string) {
	p.Pkey = true
	if v == "pk" {
		p.Pk = nil
		return
	}
	k := K(v)
	p.Pk = &k
}

// Delta is the i-th sequence delta of the put as the uint64 the request carries.
func (p *Put) Delta(i int) uint64 {
	if i < len(p.Bd) && len(p.Bd[i]) > 0 {
		d, err := strconv.ParseUint(p.Bd[i].S(), 10, 64)
		if err != nil {
			panic(fmt.Sprintf("harness: put %s: bd[%d] = %q is not a uint64", p.Key.Q(), i, p.Bd[i].S()))
		}
		return d
	}
	return uint64(p.Deltas[i])
}

// SetDeltas fills Deltas / Bd from uint64 deltas (values of 10^9 and above go to Bd).
func (p *Put) SetDeltas(ds []uint64) {
	p.Deltas, p.Bd = []int{}, nil
	big := false
	for _, d := range ds {
		big = big || d >= 1000000000
	}
	for _, d := range ds {
		switch {
		case d >= 1000000000:
			p.Deltas, p.Bd = append(p.Deltas, 0), append(p.Bd, K(strconv.FormatUint(d, 10)))
		case big:
			p.Deltas, p.Bd = append(p.Deltas, int(d)), append(p.Bd, Key{})
		default:
			p.Deltas = append(p.Deltas, int(d))
		}
	}
}

// DeltasString shows the deltas of the put.
func (p *Put) DeltasString() string {
	ds := make([]string, len(p.Deltas))
	for i := range p.Deltas {
		ds[i] = strconv.FormatUint(p.Delta(i), 10)
	}
	return "[" + strings.Join(ds, " ") + "]"
}

type Del struct {
	Key Key `json:"key"`
	Exp int `json:"exp"`
}

type Rng struct {
	S Key `json:"s"`
	E Key `json:"e"`
}

type Req struct {
	Puts []Put `json:"puts"`
	Dels []Del `json:"dels"`
	Rngs []Rng `json:"rngs"`
}

type PutRes struct {
	St   string `json:"st"`
	Key  Key    `json:"key"`
	Ver  int    `json:"ver"`
	Mod  int    `json:"mod"`
	Cts  int    `json:"cts"`
	Mts  int    `json:"mts"`
	Sess int    `json:"sess"`
	Cid  string `json:"cid"`
}

type Res struct {
	Puts []PutRes `json:"puts"`
	Dels []string `json:"dels"`
	Rngs []string `json:"rngs"`
}

type Rec struct {
	Key  Key    `json:"key"`
	Val  int    `json:"val"`
	Ver  int    `json:"ver"`
	Mod  int    `json:"mod"`
	Cts  int    `json:"cts"`
	Mts  int    `json:"mts"`
	Sess int    `json:"sess"`
	Cid  string `json:"cid"`
}

type Notif struct {
	Key Key    `json:"key"`
	T   string `json:"t"`
	Ver int    `json:"ver"`
	End Key    `json:"end"`
}

type GetProbe struct {
	N     Key    `json:"n"`
	Key   Key    `json:"key"`
	Cmp   string `json:"cmp"`
	Found bool   `json:"found"`
	P     Key    `json:"p"`
	K     Key    `json:"k"`
}

type ListProbe struct {
	N  Key   `json:"n"`
	S  Key   `json:"s"`
	E  Key   `json:"e"`
	Ps []Key `json:"ps"`
}

// Step is one call with what the specification demands (replay) or what was observed (drive).
type Step struct {
	A      string      `json:"a"` // Write | Restart | Reset
	Off    int         `json:"off"`
	Ts     int         `json:"ts"`
	Req    Req         `json:"req"`
	Err    string      `json:"err"` // "" | REJECTED | infrastructure error text
	Kf     bool        `json:"kf"`
	Ovf    bool        `json:"ovf"` // OxiaDb.tla: SeqOverflow - the demanded results are the code's wrapping arithmetic
	Res    Res         `json:"res"`
	Nf     []Notif     `json:"nf"`
	Recs   []Rec       `json:"recs"`
	Idx    []Key       `json:"idx"`
	Shadow []Key       `json:"shadow"`
	Lv     int         `json:"lv"`
	Gets   []GetProbe  `json:"gets"`
	Lists  []ListProbe `json:"lists"`
}

// Normalize makes every slice non-nil so that the JSON has no nulls (TLC needs every field).
func (s *Step) Normalize() {
	if s.Req.Puts == nil {
		s.Req.Puts = []Put{}
	}
	for i := range s.Req.Puts {
		if s.Req.Puts[i].Deltas == nil {
			s.Req.Puts[i].Deltas = []int{}
		}
		if s.Req.Puts[i].Idx == nil {
			s.Req.Puts[i].Idx = []IdxE{}
		}
	}
	if s.Req.Dels == nil {
		s.Req.Dels = []Del{}
	}
	if s.Req.Rngs == nil {
		s.Req.Rngs = []Rng{}
	}
	if s.Res.Puts == nil {
		s.Res.Puts = []PutRes{}
	}
	if s.Res.Dels == nil {
		s.Res.Dels = []string{}
	}
	if s.Res.Rngs == nil {
		s.Res.Rngs = []string{}
	}
	if s.Nf == nil {
		s.Nf = []Notif{}
	}
	if s.Recs == nil {
		s.Recs = []Rec{}
	}
	if s.Idx == nil {
		s.Idx = []Key{}
	}
	if s.Shadow == nil {
		s.Shadow = []Key{}
	}
	if s.Gets == nil {
		s.Gets = []GetProbe{}
	}
	if s.Lists == nil {
		s.Lists = []ListProbe{}
	}
	for i := range s.Lists {
		if s.Lists[i].Ps == nil {
			s.Lists[i].Ps = []Key{}
		}
	}
}

// ---------------------------------------------------------------- values

// BigValue is the first value number that carries a size: v = KB*BigValue + serial is stored as
// "v<v>|" padded with a pattern derived from v up to KB*1024 bytes (OxiaDbBlocks.tla: values large
// enough for a shard to span many storage blocks).
const BigValue = 1000000

func ValueBytes(v int) []byte {
	if v == -1 {
		// a session record: what sessionManager.createSession stores
		md := &proto.SessionMetadata{TimeoutMs: 300000, Identity: "verif"}
		b, _ := md.MarshalVT()
		return b
	}
	if v >= BigValue {
		n := (v / BigValue) * 1024
		b := make([]byte, 0, n)
		b = append(b, 'v')
		b = strconv.AppendInt(b, int64(v), 10)
		b = append(b, '|')
		for i := len(b); i < n; i++ {
			b = append(b, byte('A'+(i+v)%26))
		}
		return b
	}
	return []byte("v" + strconv.Itoa(v))
}

func ValueInt(key string, b []byte) int {
	if strings.HasPrefix(key, SessPrefix) {
		return -1
	}
	if len(b) > 0 && b[0] == 'v' {
		head := b
		if len(head) > 24 {
			head = head[:24]
		}
		if i := bytes.IndexByte(head, '|'); i > 0 {
			n, err := strconv.Atoi(string(b[1:i]))
			if err == nil && n >= BigValue && bytes.Equal(b, ValueBytes(n)) {
				return n
			}
			return -999
		}
		if n, err := strconv.Atoi(string(b[1:])); err == nil {
			return n
		}
	}
	return -999 // not a value this harness wrote
}

// ---------------------------------------------------------------- protobufs

func (r *Req) Proto() *proto.WriteRequest {
	w := &proto.WriteRequest{Shard: pb.Int64(Shard)}
	for i := range r.Puts {
		p := &r.Puts[i]
		q := &proto.PutRequest{Key: p.Key.S(), Value: ValueBytes(p.Val)}
		if p.Exp != NoExp {
			q.ExpectedVersionId = pb.Int64(int64(p.Exp))
		}
		if p.Sess != NoSess {
			q.SessionId = pb.Int64(int64(p.Sess))
		}
		if p.Cid != "" || p.Cidp {
			q.ClientIdentity = pb.String(p.Cid)
		}
		if p.Pkey {
			q.PartitionKey = pb.String(p.PartitionKey())
		}
		for j := range p.Deltas {
			q.SequenceKeyDelta = append(q.SequenceKeyDelta, p.Delta(j))
		}
		for _, ix := range p.Idx {
			q.SecondaryIndexes = append(q.SecondaryIndexes, &proto.SecondaryIndex{IndexName: ix.N.S(), SecondaryKey: ix.K.S()})
		}
		w.Puts = append(w.Puts, q)
	}
	for _, d := range r.Dels {
		q := &proto.DeleteRequest{Key: d.Key.S()}
		if d.Exp != NoExp {
			q.ExpectedVersionId = pb.Int64(int64(d.Exp))
		}
		w.Deletes = append(w.Deletes, q)
	}
	for _, g := range r.Rngs {
		w.DeleteRanges = append(w.DeleteRanges, &proto.DeleteRangeRequest{StartInclusive: g.S.S(), EndExclusive: g.E.S()})
	}
	return w
}

// TsMap translates the timestamps found in responses and records to the logical timestamps of the
// trace (identity for the bare DB, wall-clock -> logical for the leader).
type TsMap func(uint64) int

func versionFields(v *proto.Version, tm TsMap) (ver, mod, cts, mts, sess int, cid string) {
	if v == nil {
		return -1, -1, 0, 0, NoSess, ""
	}
	sess = NoSess
	if v.SessionId != nil {
		sess = int(*v.SessionId)
	}
	return int(v.VersionId), int(v.ModificationsCount), tm(v.CreatedTimestamp), tm(v.ModifiedTimestamp), sess, v.GetClientIdentity()
}

func ResFromProto(w *proto.WriteResponse, tm TsMap) Res {
	r := Res{Puts: []PutRes{}, Dels: []string{}, Rngs: []string{}}
	for _, p := range w.GetPuts() {
		x := PutRes{St: p.Status.String(), Key: Key{}}
		if p.Key != nil {
			x.Key = K(*p.Key)
		}
		x.Ver, x.Mod, x.Cts, x.Mts, x.Sess, x.Cid = versionFields(p.Version, tm)
		r.Puts = append(r.Puts, x)
	}
	for _, d := range w.GetDeletes() {
		r.Dels = append(r.Dels, d.Status.String())
	}
	for _, d := range w.GetDeleteRanges() {
		r.Rngs = append(r.Rngs, d.Status.String())
	}
	return r
}

func RecFromGet(key string, g *proto.GetResponse, tm TsMap) Rec {
	x := Rec{Key: K(key), Val: ValueInt(key, g.Value)}
	x.Ver, x.Mod, x.Cts, x.Mts, x.Sess, x.Cid = versionFields(g.Version, tm)
	return x
}

func NotifsFromProto(b *proto.NotificationBatch) []Notif {
	out := []Notif{}
	if b == nil {
		return out
	}
	keys := make([]string, 0, len(b.Notifications))
	for k := range b.Notifications {
		keys = append(keys, k)
	}
	SortKeys(keys)
	for _, k := range keys {
		n := b.Notifications[k]
		x := Notif{Key: K(k), T: n.Type.String(), Ver: -1, End: Key{}}
		if n.VersionId != nil {
			x.Ver = int(*n.VersionId)
		}
		if n.KeyRangeLast != nil {
			x.End = K(*n.KeyRangeLast)
		}
		out = append(out, x)
	}
	return out
}

func (r *Req) String() string {
	var sb strings.Builder
	for _, p := range r.Puts {
		fmt.Fprintf(&sb, "put(%s", p.Key.Q())
		if p.Exp != NoExp {
			fmt.Fprintf(&sb, ",exp=%d", p.Exp)
		}
		if p.Sess != NoSess {
			fmt.Fprintf(&sb, ",sess=%d", p.Sess)
		}
		if len(p.Deltas) > 0 {
			fmt.Fprintf(&sb, ",deltas=%s,pkey=%v", p.DeltasString(), p.Pkey)
		}
		if p.Pkey && p.Pk != nil {
			fmt.Fprintf(&sb, ",pk=%s", p.Pk.Q())
		}
		if p.Cidp {
			fmt.Fprintf(&sb, ",cid=%q(present)", p.Cid)
		}
		for _, ix := range p.Idx {
			fmt.Fprintf(&sb, ",%s:%s", ix.N.S(), ix.K.S())
		}
		sb.WriteString(") ")
	}
	for _, d := range r.Dels {
		fmt.Fprintf(&sb, "del(%s", d.Key.Q())
		if d.Exp != NoExp {
			fmt.Fprintf(&sb, ",exp=%d", d.Exp)
		}
		sb.WriteString(") ")
	}
	for _, g := range r.Rngs {
		fmt.Fprintf(&sb, "delrange[%s,%s) ", g.S.Q(), g.E.Q())
	}
	return strings.TrimSpace(sb.String())
}
