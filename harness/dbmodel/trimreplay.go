package dbmodel

import (
	"context"
	"errors"
	"fmt"
	"os"
	"path/filepath"
	"sync"
	"time"

	time2 "github.com/oxia-db/oxia/common/time"
	"github.com/oxia-db/oxia/proto"
	"github.com/oxia-db/oxia/server"
	"github.com/oxia-db/oxia/server/kv"
	"github.com/oxia-db/oxia/server/wal"
)

// Binding of spec/TrimReplay.tla (C07): a real RF=1 leader on a WAL with small segments and a database whose
// flushes are decided by the behaviour; the process kill leaves the database image of the last flush and the
// WAL files as they are on disk (trimmed by the real trimmer); real leader / follower controllers start on
// those directories.
//
// No hook in /repo: the controllers take a kv.Factory and a wal.Factory.  The kv.Factory below hands out the
// real Pebble KV and remembers it, so that the harness can flush and checkpoint it (KV.Snapshot = Flush +
// Pebble checkpoint, what crash.go does at every batch commit); the wal.Factory opens the real WAL through
// wal.VerifNewWal with a clock of its own, so that a trimmer round (wal.VerifTrimNow) finds every entry older
// than the retention and is only bounded by the commit offset the controller reports - the bound the
// trimmer exists to respect.

type kvTap struct {
	kv.Factory
	mu   sync.Mutex
	last kv.KV
}

func (f *kvTap) NewKV(namespace string, shardId int64) (kv.KV, error) {
	k, err := f.Factory.NewKV(namespace, shardId)
	if err == nil {
		f.mu.Lock()
		f.last = k
		f.mu.Unlock()
	}
	return k, err
}

func (f *kvTap) current() kv.KV {
	f.mu.Lock()
	defer f.mu.Unlock()
	return f.last
}

type walTap struct {
	opts  *wal.FactoryOptions
	clock *time2.MockedClock
	mu    sync.Mutex
	last  wal.Wal
}

func (f *walTap) NewWal(namespace string, shard int64, provider wal.CommitOffsetProvider) (wal.Wal, error) {
	w, err := wal.VerifNewWal(namespace, shard, f.opts, provider, f.clock, time.Hour)
	if err == nil {
		f.mu.Lock()
		f.last = w
		f.mu.Unlock()
	}
	return w, err
}

func (f *walTap) Close() error { return nil }

func (f *walTap) current() wal.Wal {
	f.mu.Lock()
	defer f.mu.Unlock()
	return f.last
}

func newWalTap(dir string, seg int32) *walTap {
	c := &time2.MockedClock{}
	// every entry is older than the retention: the trimmer's target is the commit offset it is given
	c.Set(time.Now().Add(1000 * time.Hour).UnixMilli())
	return &walTap{clock: c, opts: &wal.FactoryOptions{BaseWalDir: dir, Retention: time.Hour, SegmentSize: seg, SyncData: false}}
}

// TrimNode is the running node of a TrimReplay behaviour.
type TrimNode struct {
	*LeaderEngine
	kvt      *kvTap
	wt       *walTap
	seg      int32
	nimg     int
	image    string // data directory holding the database image of the last flush
	ImageAt  int    // commit offset of the running node when that image was taken
	segsSeen []int64
}

// NewTrimNode starts the node: NewTerm (which flushes the empty database) + BecomeLeader.
func NewTrimNode(seg int32) (*TrimNode, error) {
	dir, err := tmpDir("trim-node")
	if err != nil {
		return nil, err
	}
	e := &LeaderEngine{dir: dir, wall: map[uint64]int{}, id: fmt.Sprintf("verif-engine-%d", engineSeq.next()), ns: "default"}
	inner, err := kv.NewPebbleKVFactory(&kv.FactoryOptions{DataDir: dir + "/db", CacheSizeMB: 1})
	if err != nil {
		_ = os.RemoveAll(dir)
		return nil, err
	}
	t := &TrimNode{LeaderEngine: e, kvt: &kvTap{Factory: inner}, wt: newWalTap(dir+"/wal", seg), seg: seg}
	e.kvf, e.walf = t.kvt, t.wt
	if err := e.lead(); err != nil {
		t.Close()
		return nil, err
	}
	// the image a kill leaves before anything else was flushed: the flush of NewTerm
	if err := t.Flush(); err != nil {
		t.Close()
		return nil, err
	}
	return t, nil
}

// Flush flushes the running database and keeps a copy of what is on disk then (flush + checkpoint).
func (t *TrimNode) Flush() error {
	k := t.kvt.current()
	if k == nil {
		return errors.New("harness: no KV was opened")
	}
	_, err := guard(func() (int, error) {
		snap, err := k.Snapshot()
		if err != nil {
			return 0, err
		}
		defer snap.Close()
		dir := fmt.Sprintf("%s/img-%d", t.dir, t.nimg)
		t.nimg++
		dst := filepath.Join(dir, t.ns, fmt.Sprintf("shard-%d", Shard))
		if err := os.MkdirAll(filepath.Dir(dst), 0o755); err != nil {
			return 0, err
		}
		if err := copyTree(snap.BasePath(), dst); err != nil {
			return 0, err
		}
		if t.image != "" {
			_ = os.RemoveAll(t.image)
		}
		t.image, t.ImageAt = dir, t.next-1
		return 0, nil
	})
	return err
}

// Trim runs one round of the real trimmer on the running node's WAL; returns the first offset the WAL
// serves afterwards.
func (t *TrimNode) Trim() (int64, error) {
	w := t.wt.current()
	if w == nil {
		return -1, errors.New("harness: no WAL was opened")
	}
	return guard(func() (int64, error) {
		if err := wal.VerifTrimNow(w); err != nil {
			return -1, err
		}
		return w.FirstOffset(), nil
	})
}

// SegmentBases lists the base offsets of the segment files in a WAL directory of the shard.
func SegmentBases(walDir, ns string) ([]int64, error) {
	ents, err := os.ReadDir(filepath.Join(walDir, ns, fmt.Sprintf("shard-%d", Shard)))
	if err != nil {
		return nil, err
	}
	var out []int64
	for _, e := range ents {
		var b int64
		if filepath.Ext(e.Name()) == ".txnx" {
			if _, err := fmt.Sscanf(e.Name(), "%d.txnx", &b); err == nil {
				out = append(out, b)
			}
		}
	}
	for i := 1; i < len(out); i++ {
		for j := i; j > 0 && out[j] < out[j-1]; j-- {
			out[j], out[j-1] = out[j-1], out[j]
		}
	}
	return out, nil
}

// Restarted is the node after the process kill: directories only, until Lead or Follow starts a controller.
type Restarted struct {
	root  string
	ns    string
	seg   int32
	term  int64
	N     int     // entries in the log
	First int64   // first offset the reopened WAL serves
	Last  int64   // last offset of the reopened WAL
	Segs  []int64 // base offsets of the segment files the kill left
	C0    int64   // commit offset stored in the database image
	le    *LeaderEngine
	fo    *Follower
}

// Crash kills the node: what is left is the database image of the last flush and a copy of the WAL files as
// they are now.  The running node is not touched (the caller closes it).
func (t *TrimNode) Crash() (*Restarted, error) {
	root, err := tmpDir("trim-restart")
	if err != nil {
		return nil, err
	}
	r := &Restarted{root: root, ns: t.ns, seg: t.seg, term: t.term, N: t.next}
	fail := func(err error) (*Restarted, error) {
		_ = os.RemoveAll(root)
		return nil, err
	}
	if err := copyTree(t.image, root+"/db"); err != nil {
		return fail(err)
	}
	if err := copyTree(t.dir+"/wal", root+"/wal"); err != nil {
		return fail(err)
	}
	if r.Segs, err = SegmentBases(root+"/wal", t.ns); err != nil {
		return fail(err)
	}
	// what the real WAL says about the files it finds
	_, err = guard(func() (int, error) {
		wf := wal.NewWalFactory(&wal.FactoryOptions{BaseWalDir: root + "/wal", Retention: time.Hour, SegmentSize: t.seg, SyncData: false})
		defer wf.Close()
		w, err := wf.NewWal(t.ns, Shard, nil)
		if err != nil {
			return 0, err
		}
		r.First, r.Last = w.FirstOffset(), w.LastOffset()
		return 0, w.Close()
	})
	if err != nil {
		return fail(fmt.Errorf("reopening the WAL files: %w", err))
	}
	return r, nil
}

func (r *Restarted) factories() (kv.Factory, wal.Factory, error) {
	kvf, err := kv.NewPebbleKVFactory(&kv.FactoryOptions{DataDir: r.root + "/db", CacheSizeMB: 1})
	if err != nil {
		return nil, nil, err
	}
	return kvf, wal.NewWalFactory(&wal.FactoryOptions{BaseWalDir: r.root + "/wal", Retention: time.Hour, SegmentSize: r.seg, SyncData: false}), nil
}

// Lead: a leader controller on the directories, NewTerm + BecomeLeader with replication factor 1.
// refused is the error of BecomeLeader (nil: the node leads).
func (r *Restarted) Lead() (refused error, harness error) {
	kvf, wf, err := r.factories()
	if err != nil {
		return nil, err
	}
	e := &LeaderEngine{dir: r.root, wall: map[uint64]int{}, id: fmt.Sprintf("verif-engine-%d", engineSeq.next()), ns: r.ns, term: r.term, kvf: kvf, walf: wf}
	r.le = e
	type res struct{ refused error }
	out, err := guard(func() (res, error) {
		lc, err := server.NewLeaderController(server.Config{NotificationsRetentionTime: time.Hour}, r.ns, Shard, nil, wf, kvf)
		if err != nil {
			return res{}, fmt.Errorf("NewLeaderController on the directories the kill left: %w", err)
		}
		e.lc = lc
		db := server.VerifLeaderDB(lc)
		if db == nil {
			return res{}, errors.New("the controller has no database")
		}
		if r.C0, err = db.ReadCommitOffset(); err != nil {
			return res{}, err
		}
		e.term++
		if _, err := lc.NewTerm(&proto.NewTermRequest{Shard: Shard, Term: e.term}); err != nil {
			return res{}, fmt.Errorf("NewTerm: %w", err)
		}
		_, err = lc.BecomeLeader(context.Background(), &proto.BecomeLeaderRequest{Shard: Shard, Term: e.term, ReplicationFactor: 1})
		return res{refused: err}, nil
	})
	if err != nil {
		e.dead = errors.Is(err, ErrHang)
		return nil, err
	}
	return out.refused, nil
}

// Follow: a follower controller on the directories, NewTerm, then the next entry of the new leader's log
// (a filler that is never committed) announcing the commit offset adv.  Outcome: "ok" (applied up to adv, or
// nothing to apply), "refused" (the follower closed the replication stream: the apply loop stopped),
// "stalled" (neither within the settle time the caller grants for a database at commit offset c0 - a
// verdict is never based on it).
func (r *Restarted) Follow(adv int64, settle func(c0 int64) time.Duration) (outcome string, refusal error, harness error) {
	kvf, wf, err := r.factories()
	if err != nil {
		return "", nil, err
	}
	f := &Follower{dir: r.root, term: r.term + 1, ns: r.ns, kvf: kvf, wf: wf}
	r.fo = f
	_, err = guard(func() (int, error) {
		fc, err := server.NewFollowerController(server.Config{NotificationsRetentionTime: time.Hour}, r.ns, Shard, wf, kvf)
		if err != nil {
			return 0, fmt.Errorf("NewFollowerController on the directories the kill left: %w", err)
		}
		f.fc = fc
		r.C0 = fc.CommitOffset()
		if _, err := fc.NewTerm(&proto.NewTermRequest{Shard: Shard, Term: f.term}); err != nil {
			return 0, fmt.Errorf("NewTerm: %w", err)
		}
		return 0, nil
	})
	if err != nil {
		return "", nil, err
	}
	if err := f.Append(Filler(f.term, int64(r.N)), adv); err != nil {
		return "", nil, err
	}
	acked := func() bool {
		f.stream.mu.Lock()
		defer f.stream.mu.Unlock()
		for _, a := range f.stream.acks {
			if a == int64(r.N) {
				return true
			}
		}
		return false
	}
	deadline := time.Now().Add(settle(r.C0))
	for {
		select {
		case err := <-f.done:
			f.done <- err
			return "refused", err, nil
		default:
		}
		if c := f.fc.CommitOffset(); acked() && c >= adv {
			return "ok", nil, nil
		}
		if time.Now().After(deadline) {
			return "stalled", nil, nil
		}
		time.Sleep(200 * time.Microsecond)
	}
}

// DB returns the database of the restarted node.
func (r *Restarted) DB() kv.DB {
	if r.le != nil && r.le.lc != nil {
		return server.VerifLeaderDB(r.le.lc)
	}
	if r.fo != nil && r.fo.fc != nil {
		return server.VerifFollowerDB(r.fo.fc)
	}
	return nil
}

func (r *Restarted) Close() {
	switch {
	case r.le != nil:
		r.le.Close() // (removes r.root)
	case r.fo != nil:
		r.fo.Close()
	}
	_ = os.RemoveAll(r.root)
}

// Close stops the running node.
func (t *TrimNode) Close() {
	t.LeaderEngine.Close()
}
