package dbmodel

import (
	"io"
	"runtime/pprof"
)

func pprofLookup(w io.Writer) error { return pprof.Lookup("goroutine").WriteTo(w, 2) }
