package dbmodel

import (
	"bytes"
	"context"
	"crypto/sha256"
	"encoding/hex"
	"errors"
	"fmt"
	"io"
	"os"
	"os/exec"
	"runtime/pprof"
	"sort"
	"strings"
	"sync"
	"time"

	"google.golang.org/grpc/metadata"

	"github.com/oxia-db/oxia/proto"
	"github.com/oxia-db/oxia/server"
	"github.com/oxia-db/oxia/server/kv"
	"github.com/oxia-db/oxia/server/wal"
)

// Routes by which the committed log of a shard reaches a DB other than the leader's live one (C06):
// replay of the whole WAL by a new leader controller, application by a real follower controller fed
// through its Replicate stream, and a snapshot cut after some offset (real chunker, real loader, real
// handleSnapshot) followed by replication of the rest.

// ---------------------------------------------------------------- dumps

// DumpEntry is one key of a DB dump in canonical form.
type DumpEntry struct {
	Key  string
	Val  string // hex of the raw bytes (a digest when they are long); notification batches are decoded (their wire form has no fixed map order)
	Raw  string
	Desc string // long values: the decoded record with the value abbreviated (for messages)
}

func describeEntry(raw []byte) string {
	se := &proto.StorageEntry{}
	if err := se.UnmarshalVT(raw); err != nil {
		return ""
	}
	v := se.Value
	val := fmt.Sprintf("%q", v)
	if len(v) > 48 {
		val = fmt.Sprintf("%q...(%d bytes, sha256 %x)", v[:24], len(v), sha256.Sum256(v))
	}
	s := fmt.Sprintf("{value=%s ver=%d mod=%d cts=%d mts=%d", val, se.VersionId, se.ModificationsCount, se.CreationTimestamp, se.ModificationTimestamp)
	if se.SessionId != nil {
		s += fmt.Sprintf(" sess=%d", *se.SessionId)
	}
	return s + "}"
}

var termKeys = map[string]bool{"__oxia/term": true, "__oxia/term-options": true}

func canonNotification(raw []byte) (string, error) {
	nb := &proto.NotificationBatch{}
	if err := nb.UnmarshalVT(raw); err != nil {
		return "", err
	}
	keys := make([]string, 0, len(nb.Notifications))
	for k := range nb.Notifications {
		keys = append(keys, k)
	}
	sort.Strings(keys)
	var sb strings.Builder
	fmt.Fprintf(&sb, "batch{shard=%d offset=%d ts=%d", nb.Shard, nb.Offset, nb.Timestamp)
	for _, k := range keys {
		n := nb.Notifications[k]
		fmt.Fprintf(&sb, " %q:%s", k, n.Type)
		if n.VersionId != nil {
			fmt.Fprintf(&sb, ",v=%d", *n.VersionId)
		}
		if n.KeyRangeLast != nil {
			fmt.Fprintf(&sb, ",end=%q", *n.KeyRangeLast)
		}
	}
	sb.WriteString("}")
	return sb.String(), nil
}

// DumpDB returns the full ordered content of a DB: every key (user, session, shadow, index,
// notification, commit offset, version counter) except the term keys.
func DumpDB(db kv.DB) ([]DumpEntry, error) {
	if db == nil {
		return nil, errors.New("no DB")
	}
	all, err := kv.VerifDump(db)
	if err != nil {
		return nil, err
	}
	out := make([]DumpEntry, 0, len(all))
	for _, x := range all {
		if termKeys[x.Key] {
			continue
		}
		e := DumpEntry{Key: x.Key}
		if len(x.Value) > 512 {
			e.Raw = fmt.Sprintf("sha256:%x:%d", sha256.Sum256(x.Value), len(x.Value))
			e.Desc = describeEntry(x.Value)
		} else {
			e.Raw = hex.EncodeToString(x.Value)
		}
		e.Val = e.Raw
		if strings.HasPrefix(x.Key, notifPrefix) {
			c, err := canonNotification(x.Value)
			if err != nil {
				return nil, fmt.Errorf("%q: %v", x.Key, err)
			}
			e.Val = c
		}
		out = append(out, e)
	}
	return out, nil
}

// DiffDumps returns the first difference between two dumps ("" if none) and the number of notification
// batches whose raw encodings differ although their content is equal.
func DiffDumps(a, b []DumpEntry, an, bn string) (string, int) {
	enc := 0
	for i := 0; i < len(a) && i < len(b); i++ {
		if a[i].Key != b[i].Key {
			return fmt.Sprintf("key #%d: %s has %q, %s has %q", i, an, a[i].Key, bn, b[i].Key), enc
		}
		if a[i].Val != b[i].Val {
			return fmt.Sprintf("value of %q: %s has %s, %s has %s", a[i].Key, an, showVal(a[i]), bn, showVal(b[i])), enc
		}
		if a[i].Raw != b[i].Raw {
			enc++
		}
	}
	if len(a) != len(b) {
		return fmt.Sprintf("%s has %d keys, %s has %d", an, len(a), bn, len(b)), enc
	}
	return "", enc
}

func showVal(e DumpEntry) string {
	if e.Val != e.Raw {
		return e.Val
	}
	if e.Desc != "" {
		return e.Desc
	}
	raw, _ := hex.DecodeString(e.Raw)
	if d := describeEntry(raw); d != "" {
		return d
	}
	return e.Raw
}

// ---------------------------------------------------------------- the leader's log

// LiveDump dumps the DB of the running leader.
func (e *LeaderEngine) LiveDump() ([]DumpEntry, error) {
	e.quiesce()
	return DumpDB(server.VerifLeaderDB(e.lc))
}

func copyTree(src, dst string) error {
	if out, err := exec.Command("cp", "-r", src, dst).CombinedOutput(); err != nil {
		return fmt.Errorf("cp -r %s %s: %v %s", src, dst, err, out)
	}
	return nil
}

// LogEntries reads the leader's whole log from a copy of its WAL directory.
func (e *LeaderEngine) LogEntries() ([]*proto.LogEntry, error) {
	tmp, err := tmpDir("routes-wal")
	if err != nil {
		return nil, err
	}
	defer os.RemoveAll(tmp)
	if err := copyTree(e.dir+"/wal", tmp+"/wal"); err != nil {
		return nil, err
	}
	wf := wal.NewWalFactory(&wal.FactoryOptions{BaseWalDir: tmp + "/wal", Retention: time.Hour, SegmentSize: 1 << 20, SyncData: false})
	defer wf.Close()
	w, err := wf.NewWal(e.ns, Shard, nil)
	if err != nil {
		return nil, err
	}
	defer w.Close()
	r, err := w.NewReader(wal.InvalidOffset)
	if err != nil {
		return nil, err
	}
	defer r.Close()
	var out []*proto.LogEntry
	for r.HasNext() {
		le, err := r.ReadNext()
		if err != nil {
			return nil, err
		}
		out = append(out, le.CloneVT())
	}
	return out, nil
}

// ReplayedFromWal: a new leader controller on a copy of the WAL and an empty DB: NewTerm + BecomeLeader
// apply the whole log.  Returns the dump of its DB.
func (e *LeaderEngine) ReplayedFromWal() ([]DumpEntry, error) {
	d, _, err := e.ReplayedFromWalRead(nil)
	return d, err
}

// ReplayedFromWalRead is ReplayedFromWal with a look at the replayed DB (everything still in memory:
// nothing flushed it since the log was applied) before it is closed.
func (e *LeaderEngine) ReplayedFromWalRead(read func(kv.DB) string) ([]DumpEntry, string, error) {
	tmp, err := tmpDir("routes-replay")
	if err != nil {
		return nil, "", err
	}
	if err := copyTree(e.dir+"/wal", tmp+"/wal"); err != nil {
		_ = os.RemoveAll(tmp)
		return nil, "", err
	}
	r := &LeaderEngine{dir: tmp, wall: map[uint64]int{}, id: fmt.Sprintf("verif-engine-%d", engineSeq.next()), ns: e.ns, term: e.term}
	if err := r.start(); err != nil {
		r.Close()
		return nil, "", fmt.Errorf("leading from the copied WAL: %w", err)
	}
	defer r.Close()
	// (the commit offset an RF=1 leader reports stays at the DB's old commit offset until its next write;
	// what was applied is read from the DB)
	db := server.VerifLeaderDB(r.lc)
	if db == nil {
		return nil, "", errors.New("the new leader has no DB")
	}
	if c, err := db.ReadCommitOffset(); err != nil || int(c)+1 != e.next {
		return nil, "", fmt.Errorf("the leader replayed the WAL up to offset %d, %d entries were logged (%v)", c, e.next, err)
	}
	what := ""
	if read != nil {
		what = read(db)
	}
	d, err := DumpDB(db)
	return d, what, err
}

// ---------------------------------------------------------------- a real follower, fed in process

type baseStream struct{ ctx context.Context }

func (b *baseStream) SendHeader(metadata.MD) error { return nil }
func (b *baseStream) SetHeader(metadata.MD) error  { return nil }
func (b *baseStream) SetTrailer(metadata.MD)       {}
func (b *baseStream) RecvMsg(any) error            { return nil }
func (b *baseStream) SendMsg(any) error            { return nil }
func (b *baseStream) Context() context.Context     { return b.ctx }

type replStream struct {
	baseStream
	in   chan *proto.Append
	mu   sync.Mutex
	acks []int64
}

func (s *replStream) Recv() (*proto.Append, error) {
	select {
	case a := <-s.in:
		return a, nil
	case <-s.ctx.Done():
		return nil, io.EOF
	}
}

func (s *replStream) Send(a *proto.Ack) error {
	s.mu.Lock()
	s.acks = append(s.acks, a.Offset)
	s.mu.Unlock()
	return nil
}

type snapStream struct {
	baseStream
	chunks chan *proto.SnapshotChunk
	resp   chan *proto.SnapshotResponse
}

func (s *snapStream) Recv() (*proto.SnapshotChunk, error) {
	select {
	case c, ok := <-s.chunks:
		if !ok {
			return nil, io.EOF
		}
		return c, nil
	case <-s.ctx.Done():
		return nil, s.ctx.Err()
	}
}

func (s *snapStream) SendAndClose(r *proto.SnapshotResponse) error {
	s.resp <- r
	return nil
}

// Follower is a real follower controller on its own WAL and DB directories.
type Follower struct {
	ns     string
	id     string
	dir    string
	kvf    kv.Factory
	wf     wal.Factory
	fc     server.FollowerController
	term   int64
	stream *replStream
	cancel context.CancelFunc
	done   chan error
}

func NewFollower(ns string, term int64) (*Follower, error) {
	dir, err := tmpDir("routes-follower")
	if err != nil {
		return nil, err
	}
	f := &Follower{dir: dir, term: term, ns: ns}
	if f.kvf, err = kv.NewPebbleKVFactory(&kv.FactoryOptions{DataDir: dir + "/db", CacheSizeMB: 1}); err != nil {
		return nil, err
	}
	f.wf = wal.NewWalFactory(&wal.FactoryOptions{BaseWalDir: dir + "/wal", Retention: time.Hour, SegmentSize: 1 << 20, SyncData: false})
	_, err = guard(func() (int, error) {
		fc, err := server.NewFollowerController(server.Config{NotificationsRetentionTime: time.Hour}, ns, Shard, f.wf, f.kvf)
		if err != nil {
			return 0, err
		}
		f.fc = fc
		_, err = fc.NewTerm(&proto.NewTermRequest{Shard: Shard, Term: term})
		return 0, err
	})
	if err != nil {
		f.Close()
		return nil, err
	}
	return f, nil
}

func (f *Follower) connect() {
	if f.id == "" {
		f.id = fmt.Sprintf("verif-follower-%d", engineSeq.next())
	}
	// the controller starts its stream goroutines with the labels of the stream's context plus its own
	ctx, cancel := context.WithCancel(pprof.WithLabels(context.Background(), pprof.Labels("verif", f.id)))
	f.stream = &replStream{baseStream: baseStream{ctx}, in: make(chan *proto.Append)}
	f.cancel = cancel
	f.done = make(chan error, 1)
	s := f.stream
	go func() { f.done <- f.fc.Replicate(s) }()
}

// Append sends one entry with the commit offset the leader would announce with it.
func (f *Follower) Append(le *proto.LogEntry, commit int64) error {
	if f.stream == nil {
		f.connect()
	}
	select {
	case f.stream.in <- &proto.Append{Term: f.term, Entry: le, CommitOffset: commit}:
		return nil
	case err := <-f.done:
		f.done <- err
		return fmt.Errorf("the follower closed the replication stream: %v", err)
	case <-time.After(CallTimeout):
		return ErrHang
	}
}

// WaitApplied waits until the follower has applied the entries up to the offset.
func (f *Follower) WaitApplied(off int64) error {
	deadline := time.Now().Add(CallTimeout)
	for f.fc.CommitOffset() < off {
		select {
		case err := <-f.done:
			f.done <- err
			return fmt.Errorf("the follower closed the replication stream before applying offset %d (applied %d): %v", off, f.fc.CommitOffset(), err)
		default:
		}
		if time.Now().After(deadline) {
			return fmt.Errorf("hang: the follower applied up to %d, expected %d", f.fc.CommitOffset(), off)
		}
		time.Sleep(200 * time.Microsecond)
	}
	if c := f.fc.CommitOffset(); c != off {
		return fmt.Errorf("the follower applied up to offset %d although the commit offset announced is %d", c, off)
	}
	return nil
}

// disconnect ends the replication stream and waits until the goroutines the controller started for it
// have exited: Replicate returns as soon as one of them closes the stream, and the other one (woken by a
// sync signal) touches the WAL without the controller's lock - closing the controller under it crashes
// the process (nil WAL), which is not what this check is about.
func (f *Follower) disconnect() {
	if f.stream != nil {
		f.cancel()
		select {
		case <-f.done:
		case <-time.After(CallTimeout):
		}
		f.stream = nil
		f.waitStreamGoroutines()
	}
}

// waitStreamGoroutines waits until the goroutines the controller started for replication streams whose
// context carries this follower's label have exited.
func (f *Follower) waitStreamGoroutines() {
	if f.id == "" {
		return
	}
	needle := []byte(fmt.Sprintf("%q:%q", "verif", f.id))
	deadline := time.Now().Add(CallTimeout)
	for time.Now().Before(deadline) {
		var buf bytes.Buffer
		_ = pprof.Lookup("goroutine").WriteTo(&buf, 1)
		if !bytes.Contains(buf.Bytes(), needle) {
			return
		}
		time.Sleep(200 * time.Microsecond)
	}
}

func (f *Follower) Dump() ([]DumpEntry, error) { return DumpDB(server.VerifFollowerDB(f.fc)) }

// Filler is an entry past the end of the leader's log that only carries a commit offset to the follower;
// it is never committed itself.
func Filler(term int64, off int64) *proto.LogEntry {
	v, _ := (&proto.LogEntryValue{Value: &proto.LogEntryValue_Requests{Requests: &proto.WriteRequests{}}}).MarshalVT()
	return &proto.LogEntry{Term: term, Offset: off, Value: v, Timestamp: 1}
}

// Chunks takes a snapshot of the follower's DB with the real chunker.
func (f *Follower) Chunks() ([]*proto.SnapshotChunk, error) {
	db := server.VerifFollowerDB(f.fc)
	if db == nil {
		return nil, errors.New("no DB")
	}
	snap, err := db.Snapshot()
	if err != nil {
		return nil, err
	}
	defer snap.Close()
	var out []*proto.SnapshotChunk
	for ; snap.Valid(); snap.Next() {
		c, err := snap.Chunk()
		if err != nil {
			return nil, err
		}
		out = append(out, &proto.SnapshotChunk{Term: f.term, Name: c.Name(), ChunkIndex: c.Index(), ChunkCount: c.TotalCount(),
			Content: append([]byte(nil), c.Content()...)})
	}
	return out, nil
}

// InstallSnapshot sends the chunks through the follower's SendSnapshot handler; returns the offset it acks.
func (f *Follower) InstallSnapshot(chunks []*proto.SnapshotChunk) (int64, error) {
	f.disconnect()
	ctx, cancel := context.WithCancel(context.Background())
	defer cancel()
	s := &snapStream{baseStream: baseStream{ctx}, chunks: make(chan *proto.SnapshotChunk, len(chunks)+1), resp: make(chan *proto.SnapshotResponse, 1)}
	for _, c := range chunks {
		s.chunks <- c
	}
	close(s.chunks)
	done := make(chan error, 1)
	go func() { done <- f.fc.SendSnapshot(s) }()
	select {
	case r := <-s.resp:
		select {
		case <-done:
		case <-time.After(CallTimeout):
			return r.AckOffset, ErrHang
		}
		return r.AckOffset, nil
	case err := <-done:
		select {
		case r := <-s.resp:
			return r.AckOffset, nil
		default:
		}
		return -1, fmt.Errorf("SendSnapshot returned without a response: %v", err)
	case <-time.After(CallTimeout):
		return -1, ErrHang
	}
}

func (f *Follower) Close() {
	f.disconnect()
	if f.fc != nil {
		_, _ = guard(func() (int, error) { return 0, f.fc.Close() })
	}
	_, _ = guard(func() (int, error) {
		if f.kvf != nil {
			_ = f.kvf.Close()
		}
		if f.wf != nil {
			_ = f.wf.Close()
		}
		return 0, nil
	})
	_ = os.RemoveAll(f.dir)
}

// Feed replicates entries[from:] to the follower; the commit offset sent with entry o is o-1-lag (never
// below `floor`); a final filler entry carries the commit offset of the last entry.  Waits until all are applied.
func (f *Follower) Feed(entries []*proto.LogEntry, from int, lag int, floor int64) error {
	if from >= len(entries) {
		return nil
	}
	for i := from; i < len(entries); i++ {
		c := entries[i].Offset - 1 - int64(lag)
		if c < floor {
			c = floor
		}
		if err := f.Append(entries[i], c); err != nil {
			return err
		}
	}
	last := entries[len(entries)-1].Offset
	if err := f.Append(Filler(f.term, last+1), last); err != nil {
		return err
	}
	return f.WaitApplied(last)
}

// DB returns the database the follower currently applies to.
func (f *Follower) DB() kv.DB { return server.VerifFollowerDB(f.fc) }

// Reopen closes the follower controller (its database flushes what it holds in memory) and creates a new
// one on the same directories: the replica as it is after a restart of its node.
func (f *Follower) Reopen() error {
	f.disconnect()
	_, err := guard(func() (int, error) {
		if err := f.fc.Close(); err != nil {
			return 0, fmt.Errorf("Close: %w", err)
		}
		fc, err := server.NewFollowerController(server.Config{NotificationsRetentionTime: time.Hour}, f.ns, Shard, f.wf, f.kvf)
		if err != nil {
			return 0, fmt.Errorf("NewFollowerController on the same directories: %w", err)
		}
		f.fc = fc
		return 0, nil
	})
	return err
}

// LiveDB returns the database of the running leader.
func (e *LeaderEngine) LiveDB() kv.DB {
	e.quiesce()
	return server.VerifLeaderDB(e.lc)
}

// ---------------------------------------------------------------- reads demanded of every replica

// CheckReads asks a replica's database what the specification recorded in `want` (a step of a behaviour:
// the records after it, and - in a route record - probe gets and range lists with the demanded answers):
// every record by a point get, the probes by gets with their comparison type, the ranges by List and
// RangeScan.  Returns the first deviation ("" if none).  Full iteration (the dumps) walks the storage
// blocks in sequence; these reads are the ones that SEEK, which is where a replica serving from flushed
// tables can differ from one serving from memory.
func CheckReads(db kv.DB, tm TsMap, want *Step) string {
	if db == nil {
		return "no database"
	}
	r := &DBEngine{db: db}
	byKey := make(map[string]Rec, len(want.Recs))
	for _, rec := range want.Recs {
		byKey[rec.Key.S()] = rec
	}
	for _, rec := range want.Recs {
		k := rec.Key.S()
		g, err := r.Get(&proto.GetRequest{Key: k, IncludeValue: true})
		if err != nil {
			return fmt.Sprintf("Get(%q): %v", k, cleanErr(err))
		}
		if g.Status != proto.Status_OK {
			return fmt.Sprintf("Get(%q) = %v, the specification has the record %s", k, g.Status, showRec(rec))
		}
		if got := RecFromGet(k, g, tm); fmt.Sprint(got) != fmt.Sprint(rec) {
			return fmt.Sprintf("Get(%q) = %s, the specification has %s", k, showRec(got), showRec(rec))
		}
	}
	for i := range want.Gets {
		p := &want.Gets[i]
		if len(p.N) != 0 {
			continue // secondary-index probes are the leader's (RunProbes)
		}
		name := fmt.Sprintf("Get(%q, %s)", p.Key.S(), p.Cmp)
		g, err := r.Get(&proto.GetRequest{Key: p.Key.S(), IncludeValue: true, ComparisonType: cmpTypes[p.Cmp]})
		if err != nil {
			return fmt.Sprintf("%s: %v (the specification demands found=%v %s)", name, cleanErr(err), p.Found, p.P.Q())
		}
		switch {
		case g.Status == proto.Status_KEY_NOT_FOUND:
			if p.Found {
				return fmt.Sprintf("%s = KEY_NOT_FOUND, the specification demands %s", name, p.P.Q())
			}
		case g.Status != proto.Status_OK:
			return fmt.Sprintf("%s: status %v", name, g.Status)
		default:
			k := p.Key.S()
			if g.Key != nil {
				k = *g.Key
			}
			if !p.Found {
				return fmt.Sprintf("%s = %q, the specification demands KEY_NOT_FOUND", name, k)
			}
			if k != p.P.S() {
				return fmt.Sprintf("%s = %q, the specification demands %s", name, k, p.P.Q())
			}
			if rec, ok := byKey[k]; ok {
				if got := RecFromGet(k, g, tm); fmt.Sprint(got) != fmt.Sprint(rec) {
					return fmt.Sprintf("%s = %s, the specification has %s", name, showRec(got), showRec(rec))
				}
			}
		}
	}
	for i := range want.Lists {
		l := &want.Lists[i]
		if len(l.N) != 0 {
			continue
		}
		name := fmt.Sprintf("[%q,%q)", l.S.S(), l.E.S())
		ks, err := r.List(&proto.ListRequest{StartInclusive: l.S.S(), EndExclusive: l.E.S()})
		if err != nil {
			return fmt.Sprintf("List%s: %v", name, cleanErr(err))
		}
		wantKs := make([]string, len(l.Ps))
		for j, k := range l.Ps {
			wantKs[j] = k.S()
		}
		if fmt.Sprintf("%q", ks) != fmt.Sprintf("%q", wantKs) {
			return fmt.Sprintf("List%s = %q, the specification demands %q", name, ks, wantKs)
		}
		gs, err := r.Scan(&proto.RangeScanRequest{StartInclusive: l.S.S(), EndExclusive: l.E.S()})
		if err != nil {
			return fmt.Sprintf("RangeScan%s: %v", name, cleanErr(err))
		}
		got := make([]string, len(gs))
		for j, g := range gs {
			got[j] = g.GetKey()
		}
		if fmt.Sprintf("%q", got) != fmt.Sprintf("%q", wantKs) {
			return fmt.Sprintf("RangeScan%s = %q, the specification demands %q", name, got, wantKs)
		}
		for _, g := range gs {
			if rec, ok := byKey[g.GetKey()]; ok {
				if x := RecFromGet(g.GetKey(), g, tm); fmt.Sprint(x) != fmt.Sprint(rec) {
					return fmt.Sprintf("RangeScan%s returns %s, the specification has %s", name, showRec(x), showRec(rec))
				}
			}
		}
	}
	return ""
}
