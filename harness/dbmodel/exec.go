package dbmodel

import (
	"errors"
	"fmt"
	"reflect"
	"regexp"
	"strings"

	"github.com/oxia-db/oxia/proto"
)

var tmpNames = regexp.MustCompile(`/dev/shm/\S+|/tmp/\S+`)

func cleanErr(err error) string {
	return tmpNames.ReplaceAllString(err.Error(), "<tmp>")
}

// keysOf collects the keys a behaviour talks about (for point reads of absent keys).
func KeysOf(steps []Step) []string {
	m := map[string]bool{}
	for _, s := range steps {
		for _, p := range s.Req.Puts {
			m[p.Key.S()] = true
		}
		for _, d := range s.Req.Dels {
			m[d.Key.S()] = true
		}
		for _, r := range s.Recs {
			m[r.Key.S()] = true
		}
	}
	out := make([]string, 0, len(m))
	for k := range m {
		out = append(out, k)
	}
	SortKeys(out)
	return out
}

// WellFormed mirrors OxiaDb.tla!WellFormed (the leader's validation of Write/WriteBlock).
func WellFormed(r *Req) bool {
	for _, p := range r.Puts {
		if len(p.Deltas) > 0 && (!p.Pkey || p.Delta(0) == 0) {
			return false
		}
	}
	return true
}

func isCreateSession(e Engine, r *Req) bool {
	if _, ok := e.(*LeaderEngine); !ok {
		return false
	}
	if len(r.Puts) != 1 || len(r.Dels) != 0 || len(r.Rngs) != 0 {
		return false
	}
	p := r.Puts[0]
	return p.Val == -1 && p.Key.S() == fmt.Sprintf("%s%016x", SessPrefix, e.NextOffset())
}

// Exec executes the call described by st (arguments only) on the real code and fills in everything
// that was observed.  It returns inconsistencies seen through the public read API alone.
func Exec(e Engine, st *Step, probeKeys []string) (problems []string) {
	st.Err, st.Res, st.Nf = "", Res{Puts: []PutRes{}, Dels: []string{}, Rngs: []string{}}, []Notif{}
	switch st.A {
	case "Write":
		if isCreateSession(e, &st.Req) {
			le := e.(*LeaderEngine)
			off, err := le.CreateSession()
			st.Off = off
			if err != nil {
				st.Err = "ERROR: " + cleanErr(err)
				break
			}
			if b, nerr := le.Notifications(off); nerr == nil {
				if _, ok := le.wall[b.Timestamp]; !ok {
					le.wall[b.Timestamp] = st.Ts
				}
				st.Nf = NotifsFromProto(b)
			}
			g, err := e.Get(&proto.GetRequest{Key: st.Req.Puts[0].Key.S(), IncludeValue: true})
			if err != nil || g.Status != proto.Status_OK {
				st.Err = fmt.Sprintf("ERROR: session record unreadable: %v %v", err, g.GetStatus())
				break
			}
			r := RecFromGet(st.Req.Puts[0].Key.S(), g, e.TsMap())
			st.Res.Puts = []PutRes{{St: "OK", Key: Key{}, Ver: r.Ver, Mod: r.Mod, Cts: r.Cts, Mts: r.Mts, Sess: r.Sess, Cid: r.Cid}}
			break
		}
		if _, bare := e.(*DBEngine); bare && !WellFormed(&st.Req) {
			// A bare kv.DB has no leader in front of it: what the leader refuses before logging never
			// reaches the state machine.  (TLC cross-checks this filter: it only accepts a REJECTED
			// line for a request that is not WellFormed in OxiaDb.tla.)
			st.Err, st.Off = "REJECTED", -1
			break
		}
		off, res, err := e.Write(st.Req.Proto(), st.Ts)
		st.Off = off
		var rej *Rejected
		switch {
		case errors.As(err, &rej):
			st.Err, st.Off = "REJECTED", -1
		case err != nil:
			st.Err = "ERROR: " + cleanErr(err)
		default:
			st.Res = ResFromProto(res, e.TsMap())
			b, err := e.Notifications(off)
			if err != nil {
				problems = append(problems, err.Error())
			} else {
				if int(b.Offset) != off || int(b.Shard) != int(Shard) {
					problems = append(problems, fmt.Sprintf("notification batch of offset %d carries offset %d shard %d", off, b.Offset, b.Shard))
				}
				if ts := e.TsMap()(b.Timestamp); ts != st.Ts {
					problems = append(problems, fmt.Sprintf("notification batch of offset %d carries timestamp %d, the entry has %d", off, ts, st.Ts))
				}
				st.Nf = NotifsFromProto(b)
			}
		}
	case "Restart":
		st.Off = -1
		if err := e.Restart(); err != nil {
			st.Err = "ERROR: " + cleanErr(err)
			return nil // the engine is gone; nothing can be observed
		}
	default:
		return []string{"harness: unknown action " + st.A}
	}
	if strings.HasPrefix(st.Err, "ERROR: hang") {
		return nil
	}
	problems = append(problems, Observe(e, st, probeKeys)...)
	if e.HasIndexQueries() {
		problems = append(problems, RunProbes(e, st)...)
	}
	return problems
}

// Diff compares what the specification demands (want) with what the real code did (got) on the
// aspects named in scope: res (per-operation results), recs (records read back), lv (persisted version
// counter), idx (raw index keys), shadow (raw shadow keys), nf (notification batch), probes (index queries).
// The outcome (accepted / refused / infrastructure error) is always compared.
func Diff(want, got *Step, scope map[string]bool) string {
	var d []string
	add := func(f string, a ...any) { d = append(d, fmt.Sprintf(f, a...)) }
	if want.Err != got.Err {
		add("outcome: spec %q, code %q", want.Err, got.Err)
		return strings.Join(d, "; ")
	}
	if want.Off != got.Off {
		add("offset: spec %d, code %d", want.Off, got.Off)
	}
	cmpList := func(name string, n1, n2 int, at func(i int) (any, any)) {
		if n1 != n2 {
			add("%s: spec has %d, code has %d", name, n1, n2)
		}
		for i := 0; i < n1 && i < n2; i++ {
			a, b := at(i)
			if !reflect.DeepEqual(a, b) {
				add("%s[%d]: spec %+v, code %+v", name, i, a, b)
				return
			}
		}
	}
	norm := func(k Key) Key {
		if len(k) == 0 {
			return Key{}
		}
		return k
	}
	for i := range want.Res.Puts {
		want.Res.Puts[i].Key = norm(want.Res.Puts[i].Key)
	}
	for i := range got.Res.Puts {
		got.Res.Puts[i].Key = norm(got.Res.Puts[i].Key)
	}
	if scope["res"] {
		cmpList("put result", len(want.Res.Puts), len(got.Res.Puts), func(i int) (any, any) { return showPut(want.Res.Puts[i]), showPut(got.Res.Puts[i]) })
		cmpList("delete result", len(want.Res.Dels), len(got.Res.Dels), func(i int) (any, any) { return want.Res.Dels[i], got.Res.Dels[i] })
		cmpList("delete-range result", len(want.Res.Rngs), len(got.Res.Rngs), func(i int) (any, any) { return want.Res.Rngs[i], got.Res.Rngs[i] })
	}
	if scope["recs"] {
		cmpList("record", len(want.Recs), len(got.Recs), func(i int) (any, any) { return showRec(want.Recs[i]), showRec(got.Recs[i]) })
	}
	if scope["idx"] {
		cmpList("index entry", len(want.Idx), len(got.Idx), func(i int) (any, any) { return want.Idx[i].Q(), got.Idx[i].Q() })
	}
	if scope["shadow"] {
		cmpList("shadow key", len(want.Shadow), len(got.Shadow), func(i int) (any, any) { return want.Shadow[i].Q(), got.Shadow[i].Q() })
	}
	if scope["lv"] && want.Lv != got.Lv {
		add("last version id: spec %d, code %d", want.Lv, got.Lv)
	}
	if scope["nf"] && want.A == "Write" && want.Err == "" {
		cmpList("notification", len(want.Nf), len(got.Nf), func(i int) (any, any) { return showNf(want.Nf[i]), showNf(got.Nf[i]) })
	}
	if scope["probes"] {
		cmpList("index get", len(want.Gets), len(got.Gets), func(i int) (any, any) { return showGet(want.Gets[i]), showGet(got.Gets[i]) })
		cmpList("index list", len(want.Lists), len(got.Lists), func(i int) (any, any) { return showList(want.Lists[i]), showList(got.Lists[i]) })
	}
	return strings.Join(d, "; ")
}

func showPut(p PutRes) string {
	return fmt.Sprintf("{%s key=%s ver=%d mod=%d cts=%d mts=%d sess=%d cid=%q}", p.St, p.Key.Q(), p.Ver, p.Mod, p.Cts, p.Mts, p.Sess, p.Cid)
}
func showRec(r Rec) string {
	return fmt.Sprintf("{%s val=%d ver=%d mod=%d cts=%d mts=%d sess=%d cid=%q}", r.Key.Q(), r.Val, r.Ver, r.Mod, r.Cts, r.Mts, r.Sess, r.Cid)
}
func showNf(n Notif) string {
	return fmt.Sprintf("{%s %s ver=%d end=%s}", n.Key.Q(), n.T, n.Ver, n.End.Q())
}
func showGet(g GetProbe) string {
	return fmt.Sprintf("{index %s %s %s -> found=%v primary=%s secondary=%s}", g.N.S(), g.Cmp, g.Key.Q(), g.Found, g.P.Q(), g.K.Q())
}
func showList(l ListProbe) string {
	ps := []string{}
	for _, p := range l.Ps {
		ps = append(ps, p.Q())
	}
	return fmt.Sprintf("{index %s [%s,%s) -> %s}", l.N.S(), l.S.Q(), l.E.Q(), strings.Join(ps, ","))
}
