package dbmodel

import (
	"fmt"
	"os"
	"path/filepath"
	"time"

	time2 "github.com/oxia-db/oxia/common/time"
	"github.com/oxia-db/oxia/proto"
	"github.com/oxia-db/oxia/server"
	"github.com/oxia-db/oxia/server/kv"
)

// Crash points of the storage engine (C07 / C06): the database of a shard is created through a kv.Factory
// whose write batches report every successful Commit.  Pebble runs without a WAL, so what survives a crash
// is what the last flush wrote; a flush captures whole batches, therefore the images a crash can leave are
// exactly the states after a batch commit.  At every commit the engine is flushed and checkpointed (the
// real KV.Snapshot: Flush + Pebble checkpoint) and the files are copied: the disk of a node that died at
// that instant right after a flush.  (The image a crash leaves when no flush happened since commit k is the
// image taken at commit k - the same set.)

const crashNs = "default"

type crashFactory struct {
	kv.Factory
	onCommit func(inner kv.KV)
}

type crashKV struct {
	kv.KV
	f *crashFactory
}

type crashBatch struct {
	kv.WriteBatch
	k *crashKV
}

func (f *crashFactory) NewKV(namespace string, shardId int64) (kv.KV, error) {
	inner, err := f.Factory.NewKV(namespace, shardId)
	if err != nil {
		return nil, err
	}
	return &crashKV{KV: inner, f: f}, nil
}

func (k *crashKV) NewWriteBatch() kv.WriteBatch {
	return &crashBatch{WriteBatch: k.KV.NewWriteBatch(), k: k}
}

func (b *crashBatch) Commit() error {
	if err := b.WriteBatch.Commit(); err != nil {
		return err
	}
	if b.k.f.onCommit != nil {
		b.k.f.onCommit(b.k.KV)
	}
	return nil
}

// CrashImage is the disk of the node at one batch commit.
type CrashImage struct {
	Dir    string // a data directory (open it with kv.NewPebbleKVFactory)
	During int    // offset of the entry whose application committed the batch (-1: outside ProcessWrite)
	Commit int    // number of the batch commit (0-based, over the life of the shard)
}

// CrashDB applies log entries to a real kv.DB and collects a crash image at every batch commit.
type CrashDB struct {
	root    string
	inner   kv.Factory
	factory *crashFactory
	db      kv.DB
	during  int
	commits int
	Images  []CrashImage
	imgErr  error
}

func NewCrashDB() (*CrashDB, error) {
	root, err := tmpDir("routes-crash")
	if err != nil {
		return nil, err
	}
	c := &CrashDB{root: root, during: -1}
	if c.inner, err = kv.NewPebbleKVFactory(&kv.FactoryOptions{DataDir: root + "/db", CacheSizeMB: 1}); err != nil {
		_ = os.RemoveAll(root)
		return nil, err
	}
	c.factory = &crashFactory{Factory: c.inner, onCommit: c.image}
	if err := c.open(); err != nil {
		c.Close()
		return nil, err
	}
	return c, nil
}

func (c *CrashDB) open() error {
	db, err := kv.NewDB(crashNs, Shard, c.factory, time.Hour, time2.SystemClock)
	if err != nil {
		return err
	}
	c.db = db
	return nil
}

func (c *CrashDB) image(inner kv.KV) {
	n := c.commits
	c.commits++
	if c.imgErr != nil {
		return
	}
	snap, err := inner.Snapshot() // Flush + checkpoint
	if err != nil {
		c.imgErr = fmt.Errorf("snapshot at batch commit %d: %w", n, err)
		return
	}
	dir := fmt.Sprintf("%s/img-%d", c.root, n)
	dst := filepath.Join(dir, crashNs, fmt.Sprintf("shard-%d", Shard))
	if err := os.MkdirAll(filepath.Dir(dst), 0o755); err == nil {
		err = copyTree(snap.BasePath(), dst)
		if err != nil {
			c.imgErr = err
		}
	} else {
		c.imgErr = err
	}
	if err := snap.Close(); err != nil && c.imgErr == nil {
		c.imgErr = err
	}
	c.Images = append(c.Images, CrashImage{Dir: dir, During: c.during, Commit: n})
}

// Apply applies one log entry (ProcessWrite with the server's callback chain).
func (c *CrashDB) Apply(req *proto.WriteRequest, off int, ts int) error {
	c.during = off
	_, err := guard(func() (*proto.WriteResponse, error) {
		return c.db.ProcessWrite(req, int64(off), uint64(ts), server.WrapperUpdateOperationCallback)
	})
	c.during = -1
	if err == nil {
		err = c.imgErr
	}
	return err
}

// Restart closes and reopens the database (graceful: everything is flushed).
func (c *CrashDB) Restart() error {
	_, err := guard(func() (int, error) {
		if err := c.db.Close(); err != nil {
			return 0, err
		}
		return 0, c.open()
	})
	return err
}

func (c *CrashDB) Close() {
	_, _ = guard(func() (int, error) {
		if c.db != nil {
			_ = c.db.Close()
		}
		if c.inner != nil {
			_ = c.inner.Close()
		}
		return 0, nil
	})
	_ = os.RemoveAll(c.root)
}

// OpenImage opens a crash image with a fresh kv.DB (what the node does when it starts again).
func OpenImage(img CrashImage) (db kv.DB, closeAll func(), err error) {
	f, err := kv.NewPebbleKVFactory(&kv.FactoryOptions{DataDir: img.Dir, CacheSizeMB: 1})
	if err != nil {
		return nil, nil, err
	}
	db, err = guard(func() (kv.DB, error) { return kv.NewDB(crashNs, Shard, f, time.Hour, time2.SystemClock) })
	if err != nil {
		_ = f.Close()
		return nil, nil, err
	}
	return db, func() {
		_, _ = guard(func() (int, error) { _ = db.Close(); _ = f.Close(); return 0, nil })
	}, nil
}

// ApplyTo applies one log entry to an opened database.
func ApplyTo(db kv.DB, req *proto.WriteRequest, off int, ts int) error {
	_, err := guard(func() (*proto.WriteResponse, error) {
		return db.ProcessWrite(req, int64(off), uint64(ts), server.WrapperUpdateOperationCallback)
	})
	return err
}

// DB returns the observed database.
func (c *CrashDB) DB() kv.DB { return c.db }

// DB of the reference engine (for dumps).
func (e *DBEngine) DB() kv.DB { return e.db }
