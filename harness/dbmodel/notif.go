package dbmodel

import (
	"context"
	"errors"
	"fmt"
	"io"
	"sort"
	"strings"
	"sync"
	"time"

	"google.golang.org/grpc/peer"

	"github.com/oxia-db/oxia/proto"
	"github.com/oxia-db/oxia/server"
	"github.com/oxia-db/oxia/server/kv"
)

// The notification stream of a real RF=1 leader under the harness's control (spec/NotifStream.tla):
// the callback given to LeaderController.GetNotifications parks the dispatcher in OnNext until the
// harness decides that the batch is delivered or that the subscriber goes away.

const NotifRetention = time.Hour // what the engine's controllers are configured with

const notifPrefix = "__oxia/notifications/"

// Stream is one GetNotifications call.
type Stream struct {
	e       *LeaderEngine
	cancel  context.CancelFunc
	mu      sync.Mutex
	inCall  bool                     // GetNotifications has not returned yet
	Dummy   *proto.NotificationBatch // the empty first batch (no start offset given)
	pending chan *proto.NotificationBatch
	release chan error
	done    chan error
	closed  bool
	head    *proto.NotificationBatch // offered by the dispatcher, parked in OnNext
}

func (s *Stream) OnNext(b *proto.NotificationBatch) error {
	s.mu.Lock()
	if s.inCall && s.Dummy == nil {
		s.Dummy = b
		s.mu.Unlock()
		return nil
	}
	s.mu.Unlock()
	s.pending <- b
	return <-s.release
}

func (s *Stream) OnComplete(err error) {
	select {
	case s.done <- err:
	default:
	}
}

// Subscribe opens a stream; start == nil: no start offset.
func (e *LeaderEngine) Subscribe(start *int64) *Stream {
	c, cancel := context.WithCancel(context.Background())
	ctx := peer.NewContext(c, &peer.Peer{Addr: peerAddr(e.id)})
	s := &Stream{e: e, cancel: cancel, inCall: start == nil, pending: make(chan *proto.NotificationBatch), release: make(chan error), done: make(chan error, 1)}
	_, _ = guard(func() (int, error) {
		e.lc.GetNotifications(ctx, &proto.NotificationsRequest{Shard: Shard, StartOffsetExclusive: start}, s)
		return 0, nil
	})
	s.mu.Lock()
	s.inCall = false
	s.mu.Unlock()
	return s
}

// Head waits until the dispatcher offers the next batch (it stays parked in OnNext) or the wait expires
// (nil, nil) or the stream has ended (nil, error).
func (s *Stream) Head(wait time.Duration) (*proto.NotificationBatch, error) {
	if s.head != nil {
		return s.head, nil
	}
	select {
	case b := <-s.pending:
		s.head = b
		return b, nil
	case err := <-s.done:
		s.done <- err
		if err == nil {
			err = io.EOF
		}
		return nil, err
	case <-time.After(wait):
		return nil, nil
	}
}

// Send lets the parked batch count as delivered and the dispatcher go on.
func (s *Stream) Send() (*proto.NotificationBatch, error) {
	b, err := s.Head(CallTimeout)
	if err != nil {
		return nil, err
	}
	if b == nil {
		return nil, ErrHang
	}
	s.head = nil
	s.release <- nil
	return b, nil
}

// Disconnect ends the stream from the subscriber's side; a parked batch is not delivered.
func (s *Stream) Disconnect() error {
	if s.closed {
		return nil
	}
	s.closed = true
	s.cancel()
	if s.head != nil {
		s.head = nil
		s.release <- io.EOF
	}
	deadline := time.After(CallTimeout)
	for {
		select {
		case <-s.pending: // offered before the dispatcher noticed
			s.release <- io.EOF
		case <-s.done:
			return nil
		case <-deadline:
			return ErrHang
		}
	}
}

// NotifStored returns the offsets of the notification batches stored in the leader's DB, with their
// (wall-clock) timestamps, read from the raw keys.
func (e *LeaderEngine) NotifStored() (offs []int, ts map[int]uint64, err error) {
	return notifStoredIn(server.VerifLeaderDB(e.lc))
}

func notifStoredIn(db kv.DB) (offs []int, ts map[int]uint64, err error) {
	if db == nil {
		return nil, nil, errors.New("the controller has no DB")
	}
	all, err := kv.VerifDump(db)
	if err != nil {
		return nil, nil, err
	}
	ts = map[int]uint64{}
	for _, x := range all {
		if !strings.HasPrefix(x.Key, notifPrefix) {
			continue
		}
		var off int
		if _, err := fmt.Sscanf(x.Key[len(notifPrefix):], "%016x", &off); err != nil {
			return nil, nil, fmt.Errorf("notification key %q: %v", x.Key, err)
		}
		nb := &proto.NotificationBatch{}
		if err := nb.UnmarshalVT(x.Value); err != nil {
			return nil, nil, fmt.Errorf("notification batch %q: %v", x.Key, err)
		}
		if int(nb.Offset) != off {
			return nil, nil, fmt.Errorf("notification key %q stores the batch of offset %d", x.Key, nb.Offset)
		}
		offs = append(offs, off)
		ts[off] = nb.Timestamp
	}
	sort.Ints(offs)
	return offs, ts, nil
}

// ElectLagging replaces the leader by a replica whose DB is `lag` entries behind its log (NotifStream.tla!DoElect):
// a real follower controller on fresh directories receives the leader's whole log through its Replicate
// stream, with a commit offset that stops `lag` entries short of the head (electLagging); before it is fenced,
// its own notification trimmer (the real trimNotifications) removes what the leader's trimmer has removed
// - replicas hold the same entries with the same timestamps and trim with the same retention -; then it is
// fenced, closed and a leader controller on ITS log and DB is told BecomeLeader, which applies the tail.
func (e *LeaderEngine) ElectLagging(lag int) error {
	kept, _, err := e.NotifStored()
	if err != nil {
		return fmt.Errorf("harness: reading the leader's stored batches: %w", err)
	}
	onLeader := map[int]bool{}
	for _, o := range kept {
		onLeader[o] = true
	}
	e.beforeFence = func(f *Follower) error {
		offs, ts, err := notifStoredIn(f.DB())
		if err != nil {
			return fmt.Errorf("harness: reading the follower's stored batches: %w", err)
		}
		applied := e.next - lag
		if len(offs) != applied {
			return fmt.Errorf("the follower applied %d entries and stores %d notification batches (%v)", applied, len(offs), offs)
		}
		cutoff, trim := uint64(0), false
		for _, o := range offs {
			if !onLeader[o] {
				cutoff, trim = ts[o], true
			}
		}
		if trim {
			if _, err := guard(func() (int, error) {
				return 0, kv.VerifTrimNotifications(f.DB(), NotifRetention, time.UnixMilli(int64(cutoff)).Add(NotifRetention))
			}); err != nil {
				return fmt.Errorf("trim on the follower: %w", err)
			}
		}
		return nil
	}
	defer func() { e.beforeFence = nil }()
	// an RF=1 leader elected with a lagging DB reports the DB's old commit offset until its next write
	e.dbCommit = true
	return e.electLagging(lag)
}

// TrackerCommit is the commit offset the leader reports (GetStatus): the one its quorum tracker holds.
func (e *LeaderEngine) TrackerCommit() int {
	st, err := e.lc.GetStatus(&proto.GetStatusRequest{Shard: Shard})
	if err != nil {
		return -2
	}
	return int(st.CommitOffset)
}

// TrimNotifications runs one round of the real trimmer at the instant at which exactly the batches with
// a timestamp <= cutoffWall have reached the retention time.
func (e *LeaderEngine) TrimNotifications(cutoffWall uint64) error {
	db := server.VerifLeaderDB(e.lc)
	if db == nil {
		return errors.New("leader has no DB")
	}
	_, err := guard(func() (int, error) {
		return 0, kv.VerifTrimNotifications(db, NotifRetention, time.UnixMilli(int64(cutoffWall)).Add(NotifRetention))
	})
	return err
}
