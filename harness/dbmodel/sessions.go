package dbmodel

import (
	"context"
	"errors"
	"fmt"
	"net/url"
	"os"
	"sort"
	"strings"
	"sync"
	"sync/atomic"
	"time"

	"github.com/oxia-db/oxia/common/constant"
	"github.com/oxia-db/oxia/proto"
	"github.com/oxia-db/oxia/server"
)

// Session lifetime under the harness's control (spec/Sessions.tla): the session timers of a leader
// engine run on a tick counter that only the harness advances, and every cleanup (expiry or
// CloseSession) parks between the listing of the session's shadow keys and its delete write until the
// harness lets it proceed.  Both hooks are compiled into /repo with the build tag `verif` only.

// TickDuration is the length of one tick of the abstract clock in session-timeout terms.
const TickDuration = 10 * time.Second

// SignalTimeout bounds the wait for a completion signal of the real code (a timer being armed or
// re-armed, a cleanup reaching the gate).  A signal that does not come is not an error of the harness:
// the step goes on and the projection shows what the code did not do.
var SignalTimeout = 4 * time.Second

type fakeTimer struct {
	ctl      *SessCtl
	id       int64
	ch       chan time.Time
	deadline int
	active   bool
	resets   int
	stopped  bool
}

func (t *fakeTimer) C() <-chan time.Time { return t.ch }

func (t *fakeTimer) Reset(d time.Duration) bool {
	c := t.ctl
	c.mu.Lock()
	defer c.mu.Unlock()
	was := t.active
	select {
	case <-t.ch:
	default:
	}
	t.deadline = c.now + int(d/TickDuration)
	t.active = true
	t.resets++
	c.cond.Broadcast()
	return was
}

func (t *fakeTimer) Stop() bool {
	c := t.ctl
	c.mu.Lock()
	defer c.mu.Unlock()
	was := t.active
	t.active = false
	t.stopped = true
	c.cond.Broadcast()
	return was
}

type gate struct {
	keys    []string
	release chan struct{}
}

// SessCtl is the harness side of one engine's session manager.
type SessCtl struct {
	mu     sync.Mutex
	cond   *sync.Cond
	now    int
	timers map[int64]*fakeTimer // the latest timer of every session
	gates  map[int64]*gate      // cleanups parked between listing and delete write
	kinds  map[int64]string     // "expire" | "close" of the parked cleanups
	closes map[int64]chan error // running CloseSession calls
}

var sessCtls sync.Map // namespace -> *SessCtl

func init() {
	server.VerifNewSessionTimer = func(ns string, _ int64, id int64, d time.Duration) server.VerifTimer {
		v, ok := sessCtls.Load(ns)
		if !ok {
			return nil
		}
		c := v.(*SessCtl)
		c.mu.Lock()
		defer c.mu.Unlock()
		t := &fakeTimer{ctl: c, id: id, ch: make(chan time.Time, 1), deadline: c.now + int(d/TickDuration), active: true}
		c.timers[id] = t
		c.cond.Broadcast()
		return t
	}
	server.VerifSessionGate = func(ns string, _ int64, id int64, keys []string) {
		v, ok := sessCtls.Load(ns)
		if !ok {
			return
		}
		c := v.(*SessCtl)
		g := &gate{keys: append([]string(nil), keys...), release: make(chan struct{})}
		c.mu.Lock()
		c.gates[id] = g
		if _, ok := c.kinds[id]; !ok {
			c.kinds[id] = "expire"
		}
		c.cond.Broadcast()
		c.mu.Unlock()
		<-g.release
	}
}

// waitFor waits until cond() holds (evaluated under the lock) or SignalTimeout passes.
// (a tree in which a signal never comes would cost SignalTimeout per call: after a few misses in this
// process the wait is cut short - a miss is only reported if it reproduces on re-execution anyway)
var missedSignals atomic.Int32

func (c *SessCtl) waitFor(cond func() bool) bool {
	to := SignalTimeout
	if missedSignals.Load() >= 3 {
		to = 300 * time.Millisecond
	}
	deadline := time.Now().Add(to)
	stop := time.AfterFunc(to, func() { c.mu.Lock(); c.cond.Broadcast(); c.mu.Unlock() })
	defer stop.Stop()
	c.mu.Lock()
	defer c.mu.Unlock()
	for !cond() {
		if !time.Now().Before(deadline) {
			missedSignals.Add(1)
			return false
		}
		c.cond.Wait()
	}
	return true
}

// NewSessionEngine is a leader engine whose sessions run on the harness's clock.
func NewSessionEngine() (*LeaderEngine, error) {
	dir, err := tmpDir("sesscheck-lc")
	if err != nil {
		return nil, err
	}
	id := fmt.Sprintf("verif-engine-%d", engineSeq.next())
	c := &SessCtl{timers: map[int64]*fakeTimer{}, gates: map[int64]*gate{}, kinds: map[int64]string{}, closes: map[int64]chan error{}}
	c.cond = sync.NewCond(&c.mu)
	e := &LeaderEngine{dir: dir, wall: map[uint64]int{}, id: id, ns: id, sess: c}
	sessCtls.Store(id, c)
	return e, e.start()
}

// drainSessions lets every parked cleanup finish (a controller must not be closed while a session is
// between its two cleanup steps: see design/C14.md) and detaches the engine from the hooks.
func (e *LeaderEngine) drainSessions() {
	if e.sess == nil {
		return
	}
	e.sess.mu.Lock()
	ids := []int64{}
	for id := range e.sess.gates {
		ids = append(ids, id)
	}
	e.sess.mu.Unlock()
	for _, id := range ids {
		if !e.dead {
			_, _ = e.SessCleanup(int(id), 0)
		}
	}
	if e.dead {
		e.sess.mu.Lock()
		for id, g := range e.sess.gates {
			close(g.release)
			delete(e.sess.gates, id)
		}
		e.sess.mu.Unlock()
	}
	sessCtls.Delete(e.ns)
}

// SessArmed / SessPending project the session manager: armed timers with their deadlines, and the
// cleanups parked in the gate with the keys they listed.
type ArmedRec struct {
	S  int `json:"s"`
	Dl int `json:"dl"`
}
type PendRec struct {
	S    int    `json:"s"`
	Kind string `json:"kind"`
	Keys []Key  `json:"keys"`
}

func (e *LeaderEngine) SessProject() (now int, armed []ArmedRec, pend []PendRec) {
	c := e.sess
	armed, pend = []ArmedRec{}, []PendRec{}
	if c == nil {
		return 0, armed, pend
	}
	c.mu.Lock()
	defer c.mu.Unlock()
	for id, t := range c.timers {
		if t.active {
			armed = append(armed, ArmedRec{S: int(id), Dl: t.deadline})
		}
	}
	sort.Slice(armed, func(i, j int) bool { return armed[i].S < armed[j].S })
	for id, g := range c.gates {
		p := PendRec{S: int(id), Kind: c.kinds[id], Keys: []Key{}}
		prefix := server.SessionKey(server.SessionId(id)) + "/"
		for _, k := range g.keys {
			u, err := url.PathUnescape(strings.TrimPrefix(k, prefix))
			if err != nil || !strings.HasPrefix(k, prefix) {
				u = "?" + k
			}
			p.Keys = append(p.Keys, K(u))
		}
		pend = append(pend, p)
	}
	sort.Slice(pend, func(i, j int) bool { return pend[i].S < pend[j].S })
	return c.now, armed, pend
}

func (e *LeaderEngine) ownMillisecond() {
	for uint64(time.Now().UnixMilli()) <= e.last {
		time.Sleep(100 * time.Microsecond)
	}
}

// SessCreate creates a session with a timeout of `ticks` ticks and waits until its timer is armed.
func (e *LeaderEngine) SessCreate(ticks int) (int, error) {
	e.ownMillisecond()
	r, err := guard(func() (*proto.CreateSessionResponse, error) {
		return e.lc.CreateSession(&proto.CreateSessionRequest{Shard: Shard, SessionTimeoutMs: uint32(time.Duration(ticks) * TickDuration / time.Millisecond), ClientIdentity: "verif"})
	})
	e.last = uint64(time.Now().UnixMilli())
	if err != nil {
		return -1, err
	}
	off := e.next
	e.next++
	if int(r.SessionId) != off {
		return int(r.SessionId), fmt.Errorf("harness: session id %d, expected offset %d", r.SessionId, off)
	}
	e.sess.waitFor(func() bool { t := e.sess.timers[r.SessionId]; return t != nil && t.active })
	return off, nil
}

// SessKeepAlive sends one heartbeat and, when the session's timer is running, waits until the session
// has re-armed it.
func (e *LeaderEngine) SessKeepAlive(id int) string {
	c := e.sess
	c.mu.Lock()
	t := c.timers[int64(id)]
	before, running := 0, false
	if t != nil {
		before, running = t.resets, t.active
	}
	c.mu.Unlock()
	_, err := guard(func() (int, error) { return 0, e.lc.KeepAlive(int64(id)) })
	switch {
	case err == nil:
		if running {
			c.waitFor(func() bool { return t.resets > before || !t.active })
		}
		return "OK"
	case errors.Is(err, constant.ErrSessionNotFound):
		return "SESSION_NOT_FOUND"
	}
	return "ERROR: " + cleanErr(err)
}

// SessTick advances the clock by one tick, fires the timers that are due and waits until each expiring
// session has listed its keys (is parked in the gate).
func (e *LeaderEngine) SessTick() {
	c := e.sess
	c.mu.Lock()
	c.now++
	var fired []int64
	for id, t := range c.timers {
		if t.active && t.deadline <= c.now {
			t.active = false
			c.kinds[id] = "expire"
			select {
			case t.ch <- time.Now():
			default:
			}
			fired = append(fired, id)
		}
	}
	c.mu.Unlock()
	for _, id := range fired {
		c.waitFor(func() bool { return c.gates[id] != nil })
	}
}

// SessCloseBegin starts CloseSession and waits until it has listed the session's keys (or returned).
func (e *LeaderEngine) SessCloseBegin(id int) string {
	c := e.sess
	done := make(chan error, 1)
	c.mu.Lock()
	prev := c.gates[int64(id)] // a cleanup of this session that is already parked
	prevKind, hadKind := c.kinds[int64(id)]
	prevDone := c.closes[int64(id)]
	if prev == nil {
		c.kinds[int64(id)] = "close"
		c.closes[int64(id)] = done
	}
	c.mu.Unlock()
	go func() {
		_, err := guard(func() (*proto.CloseSessionResponse, error) {
			return e.lc.CloseSession(&proto.CloseSessionRequest{Shard: Shard, SessionId: int64(id)})
		})
		done <- err
		c.mu.Lock()
		c.cond.Broadcast()
		c.mu.Unlock()
	}()
	var err error
	returned := false
	c.waitFor(func() bool {
		if g := c.gates[int64(id)]; g != nil && g != prev {
			return true
		}
		select {
		case err = <-done:
			returned = true
			return true
		default:
			return false
		}
	})
	if !returned {
		c.mu.Lock()
		g := c.gates[int64(id)]
		c.mu.Unlock()
		if g != nil && g != prev {
			return "LISTED"
		}
		return "ERROR: hang: CloseSession neither listed the keys nor returned"
	}
	c.mu.Lock()
	if prev == nil {
		delete(c.closes, int64(id))
		delete(c.kinds, int64(id))
	} else {
		_, _, _ = prevKind, hadKind, prevDone
	}
	c.mu.Unlock()
	switch {
	case err == nil:
		return "OK" // closed without passing the gate
	case errors.Is(err, constant.ErrSessionNotFound):
		return "SESSION_NOT_FOUND"
	}
	return "ERROR: " + cleanErr(err)
}

// SessCleanup releases the parked cleanup of the session and waits until its delete write is applied
// and the session is gone from the manager.  It returns the offset of the write.
func (e *LeaderEngine) SessCleanup(id int, ts int) (int, string) {
	c := e.sess
	c.mu.Lock()
	g := c.gates[int64(id)]
	kind := c.kinds[int64(id)]
	t := c.timers[int64(id)]
	done := c.closes[int64(id)]
	c.mu.Unlock()
	if g == nil {
		return -1, "ERROR: harness: no cleanup is pending for session " + fmt.Sprint(id)
	}
	e.ownMillisecond()
	before := e.commit()
	c.mu.Lock()
	delete(c.gates, int64(id))
	delete(c.kinds, int64(id))
	c.mu.Unlock()
	close(g.release)
	out := "OK"
	if kind == "close" && done != nil {
		select {
		case err := <-done:
			if err != nil {
				out = "ERROR: " + cleanErr(err)
			}
		case <-time.After(CallTimeout):
			e.dead = true
			return -1, "ERROR: hang: CloseSession did not return"
		}
		c.mu.Lock()
		delete(c.closes, int64(id))
		c.mu.Unlock()
	} else {
		// expiry: the session goroutine stops its timer when it is done
		if !c.waitFor(func() bool { return t == nil || t.stopped }) {
			out = "ERROR: hang: the expiring session did not finish"
		}
	}
	after := e.commit()
	e.last = uint64(time.Now().UnixMilli())
	if after != before+1 {
		if out == "OK" {
			out = fmt.Sprintf("ERROR: cleanup moved the commit offset from %d to %d", before, after)
		}
		return -1, out
	}
	off := e.next
	e.next++
	if b, nerr := e.Notifications(off); nerr == nil {
		if _, ok := e.wall[b.Timestamp]; !ok {
			e.wall[b.Timestamp] = ts
		}
	}
	return off, out
}

// FillChunk is the number of records per request of a population (Sessions.tla!FillFrom).
const FillChunk = 25

// SessFill populates the shard with m plain records "a-001" .. "a-m", FillChunk per request.
func (e *LeaderEngine) SessFill(m int) error {
	for lo := 1; lo <= m; lo += FillChunk {
		hi := lo + FillChunk - 1
		if hi > m {
			hi = m
		}
		r := Req{}
		for i := lo; i <= hi; i++ {
			r.Puts = append(r.Puts, Put{Key: K(fmt.Sprintf("a-%03d", i)), Val: i, Exp: NoExp, Sess: NoSess})
		}
		_, res, err := e.Write(r.Proto(), SessTs(e.NextOffset()))
		if err != nil {
			return err
		}
		for i, p := range res.GetPuts() {
			if p.Status != proto.Status_OK {
				return fmt.Errorf("population: put %d of the request at offset %d: %v", i, e.next-1, p.Status)
			}
		}
	}
	return nil
}

// electLagging replaces the leader by a node that has acknowledged the whole log as a follower but was
// only told a commit offset `lag` entries short of it: a real follower controller on fresh directories
// is fed the leader's log through its Replicate stream (the commit offset announced with entry o is
// min(o-1, last-lag)), fenced for the next term and closed; the old leader is closed; a leader controller
// on the follower's log and DB is told BecomeLeader.
func (e *LeaderEngine) electLagging(lag int) error {
	entries, err := e.LogEntries()
	if err != nil {
		return fmt.Errorf("harness: reading the leader's log: %w", err)
	}
	if len(entries) != e.next || lag > len(entries) {
		return fmt.Errorf("harness: the leader's log has %d entries, %d were written, lag %d", len(entries), e.next, lag)
	}
	last := int64(len(entries) - 1)
	commit := last - int64(lag)
	f, err := NewFollower(e.ns, e.term)
	if err != nil {
		return fmt.Errorf("harness: follower: %w", err)
	}
	taken := false
	defer func() {
		if !taken {
			f.Close()
		}
	}()
	for _, le := range entries {
		c := le.Offset - 1
		if c > commit {
			c = commit
		}
		if err := f.Append(le, c); err != nil {
			return fmt.Errorf("follower: %w", err)
		}
	}
	// every entry acknowledged (in the follower's log), the announced commit offset applied - and not more
	deadline := time.Now().Add(CallTimeout)
	for {
		f.stream.mu.Lock()
		n := len(f.stream.acks)
		acked := n > 0 && f.stream.acks[n-1] == last
		f.stream.mu.Unlock()
		if acked {
			break
		}
		if time.Now().After(deadline) {
			return fmt.Errorf("hang: the follower did not acknowledge offset %d", last)
		}
		time.Sleep(100 * time.Microsecond)
	}
	if err := f.WaitApplied(commit); err != nil {
		return fmt.Errorf("follower: %w", err)
	}
	f.disconnect()
	if e.beforeFence != nil {
		if err := e.beforeFence(f); err != nil {
			return err
		}
	}
	nt, err := guard(func() (*proto.NewTermResponse, error) {
		return f.fc.NewTerm(&proto.NewTermRequest{Shard: Shard, Term: e.term + 1})
	})
	if err != nil {
		return fmt.Errorf("follower NewTerm: %w", err)
	}
	if nt.HeadEntryId.GetOffset() != last {
		return fmt.Errorf("the fenced follower reports head offset %d, its log was fed up to %d", nt.HeadEntryId.GetOffset(), last)
	}
	if c := f.fc.CommitOffset(); c != commit {
		return fmt.Errorf("the follower applied up to offset %d although the commit offset announced is %d", c, commit)
	}
	if _, err := guard(func() (int, error) { return 0, f.fc.Close() }); err != nil {
		return fmt.Errorf("follower Close: %w", err)
	}
	// the old leader goes away
	e.quiesce()
	if _, err := guard(func() (int, error) { return 0, e.lc.Close() }); err != nil {
		return fmt.Errorf("Close: %w", err)
	}
	_, _ = guard(func() (int, error) { _ = e.kvf.Close(); _ = e.walf.Close(); return 0, nil })
	_ = os.RemoveAll(e.dir)
	taken = true
	e.dir, e.kvf, e.walf = f.dir, f.kvf, f.wf
	// the node was fenced for the new term as a follower: its leader controller starts fenced in that term
	_, err = guard(func() (int, error) {
		lc, err := server.NewLeaderController(server.Config{NotificationsRetentionTime: time.Hour}, e.ns, Shard, nil, e.walf, e.kvf)
		if err != nil {
			return 0, fmt.Errorf("NewLeaderController: %w", err)
		}
		e.lc = lc
		e.term++
		if _, err := lc.BecomeLeader(context.Background(), &proto.BecomeLeaderRequest{Shard: Shard, Term: e.term, ReplicationFactor: 1}); err != nil {
			return 0, fmt.Errorf("BecomeLeader: %w", err)
		}
		return 0, nil
	})
	if err != nil {
		e.dead = true
		return err
	}
	if c := e.commit(); c+1 != e.next {
		return fmt.Errorf("the new leader's DB is at offset %d after BecomeLeader, %d entries are in its log", c, e.next)
	}
	return nil
}

// SessLeaderChange replaces the leader: lag = 0 closes the controller and leads the shard again with a new
// controller on the same log and DB; lag > 0 elects a node whose DB lags its log by that many entries
// (electLagging).  Waits until the new session manager has armed a timer for every session record.
func (e *LeaderEngine) SessLeaderChange(lag int) error {
	if lag == 0 {
		if err := e.Restart(); err != nil {
			return err
		}
	} else if err := e.electLagging(lag); err != nil {
		return err
	}
	ks, err := e.List(&proto.ListRequest{StartInclusive: SessPrefix, EndExclusive: "__oxia/session\x00/"})
	if err != nil {
		return err
	}
	want := 0
	for _, k := range ks {
		if isSessionKey(k) {
			want++
		}
	}
	c := e.sess
	c.waitFor(func() bool {
		n := 0
		for _, t := range c.timers {
			if t.active {
				n++
			}
		}
		return n == want
	})
	// A manager that starts other sessions than the DB shows must be seen doing so, reproducibly: BecomeLeader
	// has returned, so every session it decided to start has its goroutine; wait until none of them is still
	// on its way to its timer (read from the goroutine stacks, not from a delay).
	deadline := time.Now().Add(SignalTimeout)
	for sessionsStarting() && time.Now().Before(deadline) {
		time.Sleep(100 * time.Microsecond)
	}
	return nil
}

// sessionsStarting: is some session goroutine of this process (created by server.startSession) neither
// parked in the select of waitForHeartbeats nor past it (in session.delete)?  Such a goroutine has not
// necessarily asked for its timer yet.
func sessionsStarting() bool {
	var buf strings.Builder
	_ = pprofLookup(&buf)
	for _, g := range strings.Split(buf.String(), "\n\n") {
		if !strings.Contains(g, "created by github.com/oxia-db/oxia/server.startSession") {
			continue
		}
		if strings.Contains(g, "(*session).delete") {
			continue
		}
		head, _, _ := strings.Cut(g, "\n")
		if strings.Contains(head, "[select") && strings.Contains(g, "(*session).waitForHeartbeats") {
			continue
		}
		return true
	}
	return false
}

// ExpiryVsNewTerm is the outcome of the scenario "a session is between the two steps of its expiry
// cleanup when the leader is fenced for a new term".
type ExpiryVsNewTerm struct {
	NewTermReturned      bool   `json:"newTermReturned"`
	NewTermErr           string `json:"newTermErr"`
	NewTermWaitsForSess  bool   `json:"newTermWaitsForSession"` // NewTerm -> sessionManager.Close -> session.Close -> WaitGroup.Wait
	SessionWaitsForLock  bool   `json:"sessionWaitsForLeaderLock"` // session.delete -> WriteBlock -> leaderController.write -> Lock
	SessionRecordPresent bool   `json:"sessionRecordPresent"`
}

// SessExpiryVsNewTerm: session `id` must be parked in the gate by expiry.  NewTerm(term+1) is sent to the
// controller; as soon as it is inside sessionManager.Close the parked cleanup is released.  Whether the
// two block each other is read from the goroutine stacks, not from a timeout: the call is given
// `settle` to return, and if it has not, the stacks say where both sides wait.
func (e *LeaderEngine) SessExpiryVsNewTerm(id int, settle time.Duration) ExpiryVsNewTerm {
	var out ExpiryVsNewTerm
	c := e.sess
	c.mu.Lock()
	g := c.gates[int64(id)]
	delete(c.gates, int64(id))
	c.mu.Unlock()
	done := make(chan error, 1)
	go func() {
		_, err := e.lc.NewTerm(&proto.NewTermRequest{Shard: Shard, Term: e.term + 1})
		done <- err
	}()
	stacks := func() string {
		var buf strings.Builder
		_ = pprofLookup(&buf)
		return buf.String()
	}
	inClose := func(s string) bool {
		for _, gr := range strings.Split(s, "\n\n") {
			if strings.Contains(gr, "leaderController).NewTerm") && strings.Contains(gr, "sessionManager).Close") && strings.Contains(gr, "WaitGroup).Wait") {
				return true
			}
		}
		return false
	}
	// wait until NewTerm waits for the session (or has returned: then nothing blocks)
	deadline := time.Now().Add(CallTimeout)
	returned := false
	for time.Now().Before(deadline) {
		select {
		case err := <-done:
			returned = true
			out.NewTermReturned = true
			if err != nil {
				out.NewTermErr = err.Error()
			}
		default:
		}
		if returned || inClose(stacks()) {
			break
		}
		time.Sleep(time.Millisecond)
	}
	if g != nil {
		close(g.release)
	}
	if !returned {
		select {
		case err := <-done:
			out.NewTermReturned = true
			if err != nil {
				out.NewTermErr = err.Error()
			}
		case <-time.After(settle):
			s := stacks()
			out.NewTermWaitsForSess = inClose(s)
			for _, gr := range strings.Split(s, "\n\n") {
				if strings.Contains(gr, "session).delete") && strings.Contains(gr, "leaderController).write") && strings.Contains(gr, "RWMutex).Lock") {
					out.SessionWaitsForLock = true
				}
			}
			e.dead = true // the controller cannot be closed any more
		}
	}
	if out.NewTermReturned {
		e.term++
	}
	return out
}
