package dbmodel

import (
	"fmt"
	"reflect"
	"strings"

	"github.com/oxia-db/oxia/proto"
)

// SStep is one call of spec/Sessions.tla with what the specification demands (replay) or what was
// observed (drive): the write fields of Step plus the projection of the session manager.
type SStep struct {
	Step
	S     int        `json:"s"`   // session the call names (Create: the id it returned); -1 otherwise
	To    int        `json:"to"`  // Create: timeout in ticks
	Lag   int        `json:"lag"`  // LeaderChange: by how many entries the elected node's DB lags its log
	Fill  int        `json:"fill"` // Fill: number of plain records "a-NNN" the shard is populated with
	Out   string     `json:"out"` // outcome of the call
	Now   int        `json:"now"`
	Armed []ArmedRec `json:"armed"`
	Pend  []PendRec  `json:"pend"`
}

func (s *SStep) Normalize() {
	s.Step.Normalize()
	if s.Armed == nil {
		s.Armed = []ArmedRec{}
	}
	if s.Pend == nil {
		s.Pend = []PendRec{}
	}
	for i := range s.Pend {
		if s.Pend[i].Keys == nil {
			s.Pend[i].Keys = []Key{}
		}
	}
}

// SessTs is the logical timestamp Sessions.tla gives the entry at an offset.
func SessTs(off int) int { return 1000 + 10*off }

// ExecSess executes the call described by st (arguments only: A, S, To, Req) on a session engine and
// fills in what was observed.
func ExecSess(e *LeaderEngine, st *SStep, probeKeys []string) (problems []string) {
	st.Err, st.Res, st.Nf = "", Res{Puts: []PutRes{}, Dels: []string{}, Rngs: []string{}}, []Notif{}
	st.Off, st.Out = -1, "OK"
	observed := false
	nfOf := func(off int) {
		if b, err := e.Notifications(off); err != nil {
			problems = append(problems, err.Error())
		} else {
			if _, ok := e.wall[b.Timestamp]; !ok {
				e.wall[b.Timestamp] = SessTs(off)
			}
			if int(b.Offset) != off || b.Shard != Shard {
				problems = append(problems, fmt.Sprintf("notification batch of offset %d carries offset %d shard %d", off, b.Offset, b.Shard))
			}
			st.Nf = NotifsFromProto(b)
		}
	}
	switch st.A {
	case "Create":
		st.Ts = SessTs(e.NextOffset())
		off, err := e.SessCreate(st.To)
		st.S, st.Off = off, off
		if err != nil {
			st.Out, st.Err, st.S, st.Off = "ERROR: "+cleanErr(err), "ERROR: "+cleanErr(err), -1, -1
			break
		}
		key := fmt.Sprintf("%s%016x", SessPrefix, off)
		st.Req = Req{Puts: []Put{{Key: K(key), Val: -1, Exp: NoExp, Sess: NoSess}}}
		nfOf(off)
		g, err := e.Get(&proto.GetRequest{Key: key, IncludeValue: true})
		if err != nil || g.Status != proto.Status_OK {
			st.Err = fmt.Sprintf("ERROR: session record unreadable: %v %v", err, g.GetStatus())
			break
		}
		r := RecFromGet(key, g, e.TsMap())
		st.Res.Puts = []PutRes{{St: "OK", Key: Key{}, Ver: r.Ver, Mod: r.Mod, Cts: r.Cts, Mts: r.Mts, Sess: r.Sess, Cid: r.Cid}}
	case "KeepAlive":
		st.Out = e.SessKeepAlive(st.S)
	case "Tick":
		e.SessTick()
	case "CloseBegin":
		st.Out = e.SessCloseBegin(st.S)
	case "Cleanup":
		st.Ts = SessTs(e.NextOffset())
		st.Off, st.Out = e.SessCleanup(st.S, st.Ts)
		if st.Off >= 0 {
			nfOf(st.Off)
		}
	case "Write":
		st.Ts = SessTs(e.NextOffset())
		problems = append(problems, Exec(e, &st.Step, probeKeys)...)
		observed = true
		if st.Err != "" {
			st.Out = st.Err
		}
	case "Fill":
		if err := e.SessFill(st.Fill); err != nil {
			st.Out, st.Err = "ERROR: "+cleanErr(err), "ERROR: "+cleanErr(err)
		}
	case "LeaderChange":
		if err := e.SessLeaderChange(st.Lag); err != nil {
			if strings.HasPrefix(err.Error(), "harness:") {
				return []string{cleanErr(err)}
			}
			st.Out, st.Err = "ERROR: "+cleanErr(err), "ERROR: "+cleanErr(err)
			return problems
		}
	default:
		return []string{"harness: unknown action " + st.A}
	}
	if strings.HasPrefix(st.Out, "ERROR: hang") {
		st.Err = st.Out
		return problems
	}
	if strings.HasPrefix(st.Out, "ERROR") && st.Err == "" {
		st.Err = st.Out
	}
	if !observed {
		problems = append(problems, Observe(e, &st.Step, probeKeys)...)
	}
	st.Now, st.Armed, st.Pend = e.SessProject()
	return problems
}

// DiffSess compares the demanded with the observed step.
func DiffSess(want, got *SStep, scope map[string]bool) string {
	var d []string
	if want.Out != got.Out {
		return fmt.Sprintf("outcome of %s(%d): spec %q, code %q", want.A, want.S, want.Out, got.Out)
	}
	if want.A == "Create" && want.S != got.S {
		d = append(d, fmt.Sprintf("session id: spec %d, code %d", want.S, got.S))
	}
	sc := scope
	if want.A != "Write" && want.A != "Create" {
		// the response of the cleanup write is not returned to anybody
		sc = map[string]bool{}
		for k, v := range scope {
			sc[k] = v && k != "res"
		}
	}
	w, g := want.Step, got.Step
	if want.A != "Write" {
		// compare the write fields the same way as for a client write
		w.A, g.A = "Write", "Write"
		if want.Off < 0 {
			sc2 := map[string]bool{}
			for k, v := range sc {
				sc2[k] = v && k != "res" && k != "nf"
			}
			sc = sc2
		}
	}
	if x := Diff(&w, &g, sc); x != "" {
		d = append(d, x)
	}
	if want.Now != got.Now {
		d = append(d, fmt.Sprintf("clock: spec %d, harness %d", want.Now, got.Now))
	}
	if !reflect.DeepEqual(want.Armed, got.Armed) && !(len(want.Armed) == 0 && len(got.Armed) == 0) {
		d = append(d, fmt.Sprintf("armed sessions [{id deadline}]: spec %v, code %v (now %d)", want.Armed, got.Armed, got.Now))
	}
	if showPend(want.Pend) != showPend(got.Pend) {
		d = append(d, fmt.Sprintf("cleanups between listing and delete: spec %s, code %s", showPend(want.Pend), showPend(got.Pend)))
	}
	return strings.Join(d, "; ")
}

func showPend(ps []PendRec) string {
	var sb strings.Builder
	for _, p := range ps {
		fmt.Fprintf(&sb, "{%d %s [", p.S, p.Kind)
		for i, k := range p.Keys {
			if i > 0 {
				sb.WriteString(",")
			}
			sb.WriteString(k.Q())
		}
		sb.WriteString("]}")
	}
	return "[" + sb.String() + "]"
}
