"""Shared machinery for /verif checks: scratch space, TLC runs, Go harness builds, verdicts, evidence.

Every check is `bin/check <id> quick|thorough`; it imports checks/<id>.py and calls run(ctx).
Exit status: 0 = property held on everything explored, 1 = VIOLATION printed, 2 = inconclusive
(infrastructure trouble: build failure, TLC crash/timeout, dead driver).
"""
import json
import os
import re
import shutil
import subprocess
import sys
import tempfile
import time

VERIF = os.path.dirname(os.path.dirname(os.path.abspath(__file__)))
REPO = os.environ.get("VERIF_REPO", "/repo")
SPEC = os.path.join(VERIF, "spec")
TAG = "verif"


class Inconclusive(Exception):
    pass


class TLCResult:
    def __init__(self):
        self.exit = None
        self.generated = 0      # states generated == transitions examined
        self.distinct = 0
        self.left = 0
        self.depth = 0
        self.ok = False         # finished with "No error has been found"
        self.violated = []      # names of violated invariants / properties
        self.deadlock = False
        self.out = ""
        self.wall = 0.0
        self.printed = []       # lines printed by PrintT of tuples starting with a tag
        self.cmd = ""

    def summary(self):
        return {"cmd": self.cmd, "generated": self.generated, "distinct": self.distinct,
                "depth": self.depth, "ok": self.ok, "violated": self.violated, "wall_s": round(self.wall, 1)}


class Ctx:
    def __init__(self, pid, tier):
        self.pid = pid
        self.tier = tier
        self.seed = int(os.environ.get("VERIF_SEED", "1"))
        self.t0 = time.time()
        base = "/dev/shm" if os.path.isdir("/dev/shm") and os.access("/dev/shm", os.W_OK) else tempfile.gettempdir()
        self.scratch = tempfile.mkdtemp(prefix="verif-%s-" % pid, dir=base)
        self.tlc_runs = []
        self.violations = []       # (what, replay)
        self.known = []            # strings
        self.samples = []
        self.traces_validated = 0
        self.replayed = 0
        self.notes = {}
        self.assumptions = []
        self.budget = int(os.environ.get("VERIF_BUDGET_S", "300" if tier == "quick" else "3600"))
        self._harness_dir = None
        self.cores = os.cpu_count() or 4
        self._n = 0

    # ------------------------------------------------------------------ utilities
    def log(self, *a):
        print("[%s %6.1fs]" % (self.pid, time.time() - self.t0), *a, flush=True)

    def left(self):
        return self.budget - (time.time() - self.t0)

    def sub(self, name):
        d = os.path.join(self.scratch, name)
        os.makedirs(d, exist_ok=True)
        return d

    def cleanup(self):
        if os.environ.get("VERIF_KEEP"):
            self.log("scratch kept at", self.scratch)
            return
        shutil.rmtree(self.scratch, ignore_errors=True)

    def outdir(self):
        d = os.path.join(VERIF, "out", self.pid)
        os.makedirs(d, exist_ok=True)
        return d

    def save_replay(self, name, obj_or_text):
        p = os.path.join(self.outdir(), name)
        with open(p, "w") as f:
            if isinstance(obj_or_text, str):
                f.write(obj_or_text)
            else:
                json.dump(obj_or_text, f, indent=1)
        return p

    # ------------------------------------------------------------------ TLC
    def tlc(self, module, cfg, files=(), workers=None, simulate=None, depth=None, deque=False,
            timeout=None, extra=(), cwd_files=None, label=None, check_deadlock=False, seed=True,
            allow_violation=False, heap=None):
        """Run TLC on spec/<module>.tla with config spec/cfg/<cfg> in a private scratch dir.
        files: extra files to copy into the run dir (path or (path, name)); cwd_files: dict name->text.
        Returns TLCResult. Raises Inconclusive on crashes/timeouts."""
        self._n += 1
        rd = self.sub("tlc-%d-%s" % (self._n, label or module))
        for f in os.listdir(SPEC):
            if f.endswith(".tla"):
                shutil.copy(os.path.join(SPEC, f), rd)
        cfgsrc = cfg if os.path.isabs(cfg) else os.path.join(SPEC, "cfg", cfg)
        shutil.copy(cfgsrc, os.path.join(rd, "run.cfg"))
        for f in files:
            if isinstance(f, tuple):
                shutil.copy(f[0], os.path.join(rd, f[1]))
            else:
                shutil.copy(f, rd)
        for name, text in (cwd_files or {}).items():
            with open(os.path.join(rd, name), "w") as fh:
                fh.write(text)
        tmpd = os.path.join(rd, "jtmp")
        os.makedirs(tmpd, exist_ok=True)
        jopts = "-Djava.io.tmpdir=%s -Xss64m" % tmpd
        if heap:
            jopts += " -Xmx%s" % heap
        if deque:
            jopts += " -Dtlc2.tool.queue.IStateQueue=StateDeque"
        env = dict(os.environ)
        env["JAVA_TOOL_OPTIONS"] = (env.get("JAVA_TOOL_OPTIONS", "") + " " + jopts).strip()
        if workers is None:
            workers = self.cores
        cmd = ["tlc", "-metadir", os.path.join(rd, "meta"), "-workers", str(workers), "-config", "run.cfg"]
        if not check_deadlock:
            cmd.append("-deadlock")
        if simulate:
            cmd += ["-simulate", simulate]
            if depth:
                cmd += ["-depth", str(depth)]
        if seed:
            cmd += ["-seed", str(self.seed)]
        cmd += list(extra)
        cmd.append(module + ".tla")
        if timeout is None:
            timeout = max(60, self.left() + 120)
        r = TLCResult()
        r.cmd = " ".join(cmd[:1] + cmd[3:])
        t = time.time()
        try:
            p = subprocess.run(cmd, cwd=rd, env=env, stdout=subprocess.PIPE, stderr=subprocess.STDOUT,
                               timeout=timeout, text=True, errors="replace")
        except subprocess.TimeoutExpired:
            subprocess.run(["pkill", "-f", rd], check=False)
            raise Inconclusive("TLC timeout after %ss: %s" % (timeout, r.cmd))
        r.wall = time.time() - t
        r.exit = p.returncode
        r.out = p.stdout
        r.rundir = rd
        self._parse_tlc(r)
        self.tlc_runs.append(r)
        with open(os.path.join(rd, "tlc.out"), "w") as fh:
            fh.write(p.stdout)
        bad = (not r.ok and not r.violated and not r.deadlock)
        if simulate and r.exit == 0:
            bad = False
        if bad:
            tail = "\n".join(p.stdout.splitlines()[-40:])
            raise Inconclusive("TLC failed (exit %s) on %s/%s:\n%s" % (r.exit, module, cfg, tail))
        if (r.violated or r.deadlock) and not allow_violation:
            # a violation of the *specification* is a framework problem unless the caller handles it
            tail = "\n".join(p.stdout.splitlines()[-60:])
            raise Inconclusive("TLC reports a violation in the specification itself (%s/%s): %s\n%s"
                               % (module, cfg, r.violated, tail))
        return r

    @staticmethod
    def _parse_tlc(r):
        out = r.out
        m = None
        for m in re.finditer(r"(\d+) states generated, (\d+) distinct states found, (\d+) states left on queue", out):
            pass
        if m:
            r.generated, r.distinct, r.left = int(m.group(1)), int(m.group(2)), int(m.group(3))
        m = re.search(r"The depth of the complete state graph search is (\d+)", out)
        if m:
            r.depth = int(m.group(1))
        m = re.search(r"(\d+) states checked", out)   # simulation mode
        if m and not r.generated:
            r.generated = int(m.group(1))
            r.distinct = r.distinct or int(m.group(1))
        r.ok = "No error has been found" in out or ("Finished in" in out and "Error:" not in out and r.exit == 0)
        for m in re.finditer(r"Error: Invariant (\S+) is violated", out):
            r.violated.append(m.group(1))
        for m in re.finditer(r"Error: Action property (\S+) is violated", out):
            r.violated.append(m.group(1))
        for m in re.finditer(r"Error: Temporal properties were violated", out):
            r.violated.append("temporal")
        for m in re.finditer(r"Error: Postcondition (\S+) .* is false", out):
            r.violated.append("postcondition:" + m.group(1))
        if "Error: Deadlock reached" in out:
            r.deadlock = True
        if r.violated or r.deadlock:
            r.ok = False
        r.printed = [l for l in out.splitlines() if l.startswith("<<\"")]

    # ------------------------------------------------------------------ Go harness
    def goenv(self):
        env = dict(os.environ)
        env.update({"GOFLAGS": "-mod=mod", "GOPROXY": "off", "GONOSUMDB": "*", "GONOSUMCHECK": "1",
                    "GONOSUMDB": "*", "GOTOOLCHAIN": env.get("GOTOOLCHAIN", "auto")})
        env.pop("GOSUMDB", None)
        return env

    def harness(self):
        """Private copy of /verif/harness (so that go.mod/go.sum rewriting never dirties /verif)."""
        if self._harness_dir:
            return self._harness_dir
        d = os.path.join(self.scratch, "harness")
        shutil.copytree(os.path.join(VERIF, "harness"), d)
        shutil.copy(os.path.join(REPO, "go.sum"), os.path.join(d, "go.sum"))
        # point the replace directive at the repo under test
        gm = open(os.path.join(d, "go.mod")).read().replace("=> /repo", "=> " + REPO)
        open(os.path.join(d, "go.mod"), "w").write(gm)
        self._harness_dir = d
        return d

    def go_build(self, cmd, tags=TAG):
        """Build harness/cmd/<cmd> against the current /repo tree with the verif tag."""
        d = self.harness()
        out = os.path.join(self.scratch, "bin", cmd)
        os.makedirs(os.path.dirname(out), exist_ok=True)
        t = time.time()
        p = subprocess.run(["go", "build", "-tags", tags, "-o", out, "./cmd/" + cmd], cwd=d, env=self.goenv(),
                           stdout=subprocess.PIPE, stderr=subprocess.STDOUT, text=True)
        if p.returncode != 0:
            raise Inconclusive("go build %s failed:\n%s" % (cmd, p.stdout[-4000:]))
        self.log("built %s in %.1fs" % (cmd, time.time() - t))
        return out

    def run(self, argv, timeout=None, cwd=None, env=None, ok_codes=(0,), input=None):
        if timeout is None:
            timeout = max(60, self.left() + 120)
        try:
            p = subprocess.run(argv, cwd=cwd or self.scratch, env=env or os.environ, stdout=subprocess.PIPE,
                               stderr=subprocess.PIPE, text=True, timeout=timeout, errors="replace", input=input)
        except subprocess.TimeoutExpired:
            raise Inconclusive("timeout after %ss: %s" % (timeout, " ".join(argv[:4])))
        if p.returncode not in ok_codes:
            raise Inconclusive("command failed (%s): %s\nstdout: %s\nstderr: %s" %
                               (p.returncode, " ".join(argv[:6]), p.stdout[-3000:], p.stderr[-3000:]))
        return p

    # ------------------------------------------------------------------ verdicts
    def violation(self, what, replay):
        self.violations.append((what, replay))
        print("VIOLATION property=%s replay=%s" % (self.pid, replay), flush=True)
        print("  detail: %s" % what, flush=True)

    def known_finding(self, what):
        self.known.append(what)
        print("KNOWN-FINDING: property=%s %s" % (self.pid, what), flush=True)

    def write_evidence(self, extra_cov=None, wall=None):
        states = sum(r.distinct for r in self.tlc_runs)
        trans = sum(r.generated for r in self.tlc_runs)
        cov = {
            "states": states,
            "transitions": trans,
            "traces_validated_against_impl": self.traces_validated + self.replayed,
            "impl_traces_accepted_by_tlc": self.traces_validated,
            "spec_behaviours_replayed_on_impl": self.replayed,
            "samples": self.samples[:6] if self.samples else ["(no sample recorded)"],
            "tlc_runs": [r.summary() for r in self.tlc_runs],
            "known_findings_reported": self.known,
        }
        cov.update(self.notes)
        if extra_cov:
            cov.update(extra_cov)
        ev = {
            "property_id": self.pid,
            "tier": self.tier,
            "seed": self.seed,
            "level": "model_checking",
            "coverage": cov,
            "assumptions": self.assumptions,
            "wall_s": round(time.time() - self.t0, 1),
            "violations": len(self.violations),
        }
        os.makedirs(os.path.join(VERIF, "evidence"), exist_ok=True)
        p = os.path.join(VERIF, "evidence", "%s.json" % self.pid)
        with open(p + ".tmp", "w") as f:
            json.dump(ev, f, indent=1, default=str)
        os.replace(p + ".tmp", p)
        return p


def load_known_findings():
    p = os.path.join(VERIF, "known-findings.json")
    if not os.path.exists(p):
        return {"findings": [], "fixed": []}
    return json.load(open(p))


def findings_for(pid):
    return [f for f in load_known_findings().get("findings", []) if pid in f.get("properties", [])]


def read_ndjson(path):
    out = []
    with open(path) as f:
        for line in f:
            line = line.strip()
            if line:
                out.append(json.loads(line))
    return out


def tla_printed_json(r, tag):
    """Extract JSON strings printed by TLC via PrintT(<<tag, ToJson(x)>>)."""
    res = []
    pre = '<<"%s", "' % tag
    for l in r.out.splitlines():
        if l.startswith(pre) and l.endswith('">>'):
            s = l[len(pre):-3]
            # TLC prints the string with escaped quotes
            s = s.replace('\\"', '"').replace("\\\\", "\\")
            try:
                res.append(json.loads(s))
            except Exception:
                pass
    return res


def main(argv):
    if len(argv) < 3:
        print("usage: check <property-id> quick|thorough [--replay path]")
        return 2
    pid, tier = argv[1], argv[2]
    replay = None
    if "--replay" in argv:
        replay = argv[argv.index("--replay") + 1]
    sys.path.insert(0, os.path.join(VERIF, "checks"))
    ctx = Ctx(pid, tier)
    code = 2
    try:
        mod = __import__(pid.lower())
        if replay:
            mod.replay(ctx, replay)
        else:
            mod.run(ctx)
        ctx.write_evidence()
        code = 1 if ctx.violations else 0
    except Inconclusive as e:
        print("INCONCLUSIVE property=%s: %s" % (pid, e), flush=True)
        try:
            ctx.notes["inconclusive"] = str(e)[:2000]
            ctx.write_evidence()
        except Exception:
            pass
        code = 1 if ctx.violations else 2
    finally:
        ctx.cleanup()
    ctx.log("done: exit %d (%d violation(s), %d known finding(s))" % (code, len(ctx.violations), len(ctx.known)))
    return code
